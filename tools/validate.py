#!/usr/bin/env python3-vt
"""Validate MANIFEST.json and evidence/*.json against the given schemas (tooling venv has jsonschema)."""
import json, pathlib, sys
import jsonschema
V = pathlib.Path(__file__).resolve().parent.parent
S = pathlib.Path("/root/.vp")
ok = True
def check(path, schema):
    global ok
    try:
        jsonschema.validate(json.loads(path.read_text()), json.loads(schema.read_text()))
        print("valid", path)
    except Exception as e:
        ok = False
        print("INVALID", path, str(e)[:500])
check(V / "MANIFEST.json", S / "MANIFEST.schema.json")
for p in sorted((V / "evidence").glob("*.json")):
    check(p, S / "EVIDENCE.schema.json")
m = json.loads((V / "MANIFEST.json").read_text())
props = [json.loads(l)["id"] for l in (V / "properties.jsonl").read_text().splitlines() if l.strip()]
claimed = {c["property_id"] for c in m["checks"]}
na = {c["property_id"] for c in m.get("not_applicable", [])}
for p in props:
    if (p in claimed) == (p in na):
        ok = False; print("property", p, "must be exactly one of claimed / not_applicable")
sys.exit(0 if ok else 1)
