# print python files with docstrings/comments stripped (reading aid)
import ast, sys
def strip(path):
    src=open(path).read()
    tree=ast.parse(src)
    lines=src.split('\n')
    kill=set()
    for node in ast.walk(tree):
        if isinstance(node,(ast.FunctionDef,ast.ClassDef,ast.Module,ast.AsyncFunctionDef)):
            b=node.body
            if b and isinstance(b[0],ast.Expr) and isinstance(getattr(b[0],'value',None),ast.Constant) and isinstance(b[0].value.value,str):
                for i in range(b[0].lineno,b[0].end_lineno+1): kill.add(i)
    out=[]
    for i,l in enumerate(lines,1):
        if i in kill: continue
        if l.strip().startswith('#'): continue
        if not l.strip(): continue
        out.append(f"{i}:{l}")
    return '\n'.join(out)
for p in sys.argv[1:]:
    print('=====',p); print(strip(p))
