#!/bin/sh
# tools/prescreen.sh <worktree> <check ids...>: run quick checks with the worktree's copy of emsarray first on the import
# path (a pre-screen that leaves /repo alone; the confirmation is tools/seedcheck.sh, which applies the patch to /repo)
wt="$1"; shift
cd "$(dirname "$0")/.." || exit 2
mkdir -p .work/evidence-changed-tree; export VERIF_EVIDENCE_DIR=$PWD/.work/evidence-changed-tree
for c in "$@"; do
  r=$(PYTHONPATH=$wt/src ./check "$c" --tier ${TIER:-quick} 2>&1 | grep -E "VIOLATION|MACHINERY|: ok|FAIL" | tail -2 | cut -c1-220 | tr '\n' ' ')
  echo "  $c -> $r"
done
