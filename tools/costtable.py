#!/usr/bin/env python3
"""tools/costtable.py: print the measured-cost table of DESIGN 0.2 from the evidence files (whatever tier they hold)."""
import json, pathlib
V = pathlib.Path(__file__).resolve().parent.parent
rows = []
for k in range(1, 21):
    pid = f"C{k:02d}"
    e = json.loads((V / "evidence" / f"{pid}.json").read_text())
    c = e["coverage"]
    tv = c.get("trace_validation", {})
    wall = sum(r.get("wall_s", 0) for r in c.get("model_checking_runs", [])) + tv.get("wall_s", 0)
    rows.append((pid, e["tier"], c.get("states", 0), tv.get("records", c.get("traces_validated_against_impl", 0)), tv.get("events", c.get("evaluations", 0)), e.get("wall_s", None)))
print("| id | tier | MC distinct states | trace records / events |")
print("|---|---|---|---|")
for pid, tier, st, rec, ev, wall in rows:
    print(f"| {pid} | {tier} | {st:,} | {rec:,} / {ev:,} |".replace(",", " "))
