#!/usr/bin/env python3
"""Regenerate MANIFEST.json from the table below (single source for the interface file)."""
import json, pathlib
V = pathlib.Path(__file__).resolve().parent.parent
TECH = ("explicit TLA+ spec model-checked by TLC (exhaustive, small constants) + trace validation: "
        "implementation executions (TLC-emitted cases and seeded larger scenarios) replayed against the "
        "spec's actions by TLC")
CLAIMED = {
 "C01": dict(
   text="TLC exhaustively checks bijection / row-major / size / out-of-range rejection of the index actions "
        "(SpecWind, SpecRavel) for every grid shape of the bounded universe; the implementation's complete "
        "wind_index / ravel_index / grid_size tables for TLC-emitted worlds, lattice meshes and seeded larger "
        "shapes are validated against those same actions by TLC (Trace_C01).",
   note="Trusts TLC and the JSON projection (ints / kind strings). Universe bounds: see evidence; larger shapes only via traces.",
   ref="5 C01"),
 "C03": dict(
   text="TLC exhaustively explores ravel / wind behaviours (depth 3-4) over every dimension permutation of the bounded "
        "layouts and checks that every value keeps its (extra-index, cell) address, other dimensions keep their order, "
        "grid dimensions come back in convention order and gridless variables are refused; recorded Convention.ravel / "
        "wind / utils.ravel_dimensions / wind_dimension calls are validated against the same actions (exact dims, shape, "
        "values, dtype) and against the declarative addressing clause by TLC (Trace_C03).",
   note="Values are integer tags; a supplied linear name equal to a remaining dimension is outside the quantifier.",
   ref="5 C03"),
 "C06": dict(
   text="TLC checks the operational polygon constructors of Geometry.tla (1-D bounds lookup / midpoint synthesis, 2-D bounds "
        "lookup / neighbour-mean synthesis with the NaN rules, Arakawa node slicing, UGRID listed order, GEOS-like ring "
        "validity, extent fast paths) against the declarative statements of the property on a bounded universe of coordinate "
        "arrays (it found the isolated-NaN-centre defect at design level); recorded polygons, mask, warnings, bounds and "
        "geometry (area, bbox, membership of lattice sample points) of generated datasets of every convention are validated "
        "against those constructors and against the declarative missing-coordinate clause by TLC (Trace_C06).",
   note="Exact lattice coordinates only (2^-6 degree quanta); collapsed synthesised rings are skipped per clause; GEOS computes the union.",
   ref="5 C06"),
 "C02": dict(
   text="TLC checks on a bounded universe that the declarative views of Cells.tla (element (e, n) of every accessor is "
        "Tag(v, e, Unravel(n)); a hole keeps its slot) agree with operational models of the code's mechanisms (Arrays!Ravel = "
        "move-to-end + reshape); recorded polygons, face centres, ravel of every gridded variable, select_index of every "
        "cell of every grid kind and STRtree hits of generated datasets of every convention (skewed lattices, holes, "
        "meshes to ~60 faces) are validated cell by cell against the single abstract cell function by TLC (Trace_Cells).",
   note="Values are tags; centroid fall-back checked to 1/4 quantum inside the own convex cell.",
   ref="5 C02"),
 "C04": dict(
   text="TLC checks that the lookup action returns the least valid intersecting cell and nothing otherwise, and validates the "
        "integer point-in-closed-polygon oracle against an independent half-plane formulation on all lattice points of the "
        "bounded universe; recorded get_index_for_point / select_point results at vertices (3-4-way ties), edge midpoints, "
        "interiors, hole interiors, just-outside and far points on generated datasets (several STRtree leaves) are validated "
        "by TLC (IffIntersects, LowestIndex, Coherent, NeverAHole).",
   note="Exact lattice coordinates; GEOS 'intersects' is trusted to agree with exact arithmetic on them.",
   ref="5 C04"),
 "C05": dict(
   text="TLC checks the declarative selection clause (SelectManyOK) against an operational gather (isel with a selector) for all "
        "request lists with repeats on the bounded universe; recorded select_index / select_indexes / select_points / "
        "extract_dataframe results (every grid kind, lists with repeats, hits / boundary hits / misses, three policies, custom "
        "and default dimension names with collisions) are validated by TLC: exact values incl. missing, one entry per request in "
        "order, other dimensions intact, other-grid and geometry variables absent, error payload = exactly the misses, drop "
        "labels = original positions, fill rows missing.",
   note="All-miss 'drop' lists and explicitly supplied duplicate dimension names are outside the quantifier and not generated.",
   ref="5 C05"),
 "C07": dict(
   text="TLC checks exhaustively over every boolean array of the configured shapes (quick <= 3x3, thorough <= 4x4) x buffer 0..3 "
        "that the operational ring growing (padded copy + window) equals the Chebyshev neighbourhood, smear equals edge / node "
        "incidence, growing is monotone, and mesh renumbering tables are contiguous and order preserving; the implementation's "
        "blur_mask / smear_mask are run on that whole universe (TLC checks enumeration order and counts, so completeness is "
        "verified), c_mask_from_centres on all arrays <= 3x3, and make_clip_mask on every convention x a catalogue of lattice "
        "geometries x buffers (hit sets by exact integer geometry, touching counts), buffer_faces and mask_from_face_indexes "
        "on meshes up to ~60 faces; all validated by TLC (Trace_C07).",
   note="Clip scenarios are generated (not exhaustive); exact lattice geometry; valid 2-D meshes.",
   ref="5 C07"),
 "C08": dict(
   text="TLC checks, for every non-empty face selection of a 3x3 grid with float / attr-fill / unmaskable / partial / gridless "
        "variables and over histories MakeMask ; (SaveMask ; LoadMask)? ; Apply(o1|o2), that the operational apply (crop to the "
        "mask's bounding range, blank unselected cells of maskable variables) satisfies SelectedKept, UnselectedBlank, "
        "UnmaskableCroppedOnly, NonSpatialUntouched, NothingLeaks, CropIsTight and that a reloaded mask is the same mask; real "
        "histories (make mask, apply, save + reopen, save mask to netCDF, reload, apply to a second dataset with shifted data, "
        "one-step clip) on every convention with every fill kind on every grid kind are executed with a real work_dir and the "
        "fully loaded results validated by TLC, exactly (ValuesExact) and declaratively (SelectedKept, UnselectedBlank, ...).",
   note="Values are tags; a declared fill or NaN reads as MISSING; an empty selection may be refused.",
   ref="5 C08"),
 "C09": dict(
   text="TLC checks for every non-empty face selection of a lattice mesh that the re-indexed connectivity tables again form a "
        "consistent topology with entries in range (ClippedMeshConsistent, EntriesInRange); the same real histories as C08 are "
        "validated by TLC for: same convention after clip and after save + reopen, every kept cell has exactly its original "
        "polygon and no new polygon appears (explicit geometry), every supplied connectivity variable present, re-indexed as "
        "specified and mutually consistent, start_index / integer type / dimension order kept in the written file, and "
        "select_variables leaving every polygon identical. The thorough tier additionally model-checks the composed machine "
        "spec/EmsSystem.tla (sessions mixing access / copy / make, save, load and apply masks / select variables / in-place "
        "modification / save / reopen / point lookup / single-cell selection / point extraction under each missing-point policy / triangulation on DERIVED datasets) for base worlds of every detectable convention and replays TLC-emitted "
        "sessions on real datasets, validating after every action the produced dataset and the binding of every live dataset "
        "(Trace_System).",
   note="Derived (not stored) CF bounds are outside the geometry clause; edge tables need edge-node connectivity to have a defined numbering; plain ArakawaC is re-bound by hand.",
   ref="5 C09"),
 "C10": dict(
   text="TLC checks for every mesh of the lattice family (2x2 squares quick, 3x2 thorough: quad / two triangles either diagonal / "
        "absent) that the operational derivations of edge-node, face-edge, edge-face and face-face satisfy the consistency "
        "relations (edges = consecutive node pairs, an edge lists exactly its faces, adjacency symmetric = edge sharing) and that "
        "Normalise(Encode(table)) is the identity for every base / fill / transposition; the implementation's five normalised tables, "
        "has_valid_* flags, dimension names and polygons for family and random meshes (to ~60 faces, concave faces) under sampled "
        "(quick) or all valid (thorough, family) encodings are validated by TLC: identical faces, supplied tables used as given "
        "(non-canonical edge numbering), all tables mutually consistent (Trace_C10).",
   note="Derived edge numbering is free (relations); fe/ef supplied without en: only numbering-independent clauses; edge dimension declared or implied.",
   ref="5 C10"),
 "C11": dict(
   text="TLC explores the complete state space of the binding machine (registry, datasets, convention objects, accessor cache; "
        "one dataset of each of 4 contents + a copy slot, 2 registrable test classes, 2-3 convention objects; 30k-256k distinct "
        "states) and checks DetectIsFunctionOfContent, HighestSpecificityWins, ManualWinsTies, NothingMatchesRefused, CachedIsBound, "
        "AccessReturnsBound and the action properties BoundStable, SecondBindRefused, CopiesStartUnbound, CopiesIndependent; all 256 "
        "detection feature vectors (every convention and near-miss) are concretised and detected under registration orders, and "
        "every TLC-emitted behaviour (exhaustive to depth 3/4 + simulated depth 10) is replayed on real datasets with a fresh "
        "registry; the answers and the convention attached to every live dataset after each step are validated by TLC against "
        "the same actions (Trace_C11).",
   note="Entry point order read from the installation; ties among equally specific built-ins are left open but must be repeatable.",
   ref="5 C11"),
 "C12": dict(
   text="TLC checks for every column of 2-4 layers (all validity patterns, gaps included) x every orientation / sign / attribute "
        "presence that the operational reduction (normalise to positive-down shallow-first, argmax of the cumulative valid count) "
        "returns the declaratively defined deepest valid value, from any state reached by normalisations; real ocean_floor calls "
        "(function and accessor) on datasets of every convention with one or two depth coordinates, static sea floors with dry and "
        "full columns and gaps, depth dimension in shuffled positions are validated by TLC: deepest valid value per location and "
        "time, depth dimension and coordinates removed, other variables and the geometry untouched.",
   note="Static sea floor (the property's quantifier) is guaranteed by the generator; the order of the remaining dimensions of a reduced variable is not significant.",
   ref="5 C12"),
 "C13": dict(
   text="TLC explores histories of up to 2-3 normalisations with all 9 option combinations over every coordinate of the bounded "
        "universe and checks PhysDepthPreserved, DataMovesTogether, SignAsRequested, OrderAsRequested, BoundsFollow, Idempotent, "
        "UnsetUntouched; real normalize_depth_variables calls (function and accessor, all 9 combinations, repeated) on datasets of "
        "every convention are validated by TLC exactly against the same Normalise operator (coordinates, bounds, every variable) "
        "and against the declarative clauses, with the input projected again after each call (InputUnmodified).",
   note="Withheld positive attribute: values are such that the documented guess is right; integer depth values.",
   ref="5 C13"),
 "C14": dict(
   text="TLC checks for every simple polygon with 3-5 (quick) / 3-6 (thorough) vertices on a 3x3 point lattice (convex, reflex, "
        "collinear vertices, both windings, every start vertex) that the code's two mechanisms transcribed into TLA+ (fan for "
        "strictly convex rings, first-fit ear clipping without wrap-around otherwise) always find a diagonal and yield an exact "
        "partition (n-2 non-degenerate triangles on the cell's own vertices, inside the cell, pairwise disjoint, areas summing to "
        "the cell's); triangulate_dataset's output for generated datasets (grids with holes; meshes of 3-8 sided convex / concave "
        "/ collinear / clockwise / anticlockwise faces) is validated cell by cell with the same predicate by TLC, plus valid and "
        "unique vertices, correct cell indices and nothing for holes.",
   note="Result predicate on the output (the particular triangulation is free). Known finding F16: rings with a repeated vertex from CF 2-D bounds synthesis.",
   ref="5 C14"),
 "C15": dict(
   text="TLC checks on the bounded universe that the specification's export list (valid cells only, ascending, each with its "
        "linear and native index) satisfies OnlyValidCells / EveryValidCellOnce / LinearOrder / IndexesIdentifyCell; files written "
        "by write_geojson / write_shapefile / write_wkt / write_wkb for generated datasets of every convention are read back "
        "with independent readers and the feature lists validated by TLC against the cell function (ExportCells, ExportIndexes).",
   note="Third-party encoders/decoders trusted; rings compared up to start vertex and direction; shapefile attributes read by field position.",
   ref="5 C15"),
 "C16": dict(
   text="TLC checks that the byte stream fed to the hash (length-prefixed name, dtype, size, int32 shape, raw bytes, attribute "
        "block per geometry variable, then module / class / version) is injective on a universe chosen so that plain concatenation "
        "would collide (and does: PrefixesMatter), and that in the edit system on (geometry, other content) the stream changes iff "
        "the geometry does; make_cache_key is run with a recording hash object on datasets of every convention and their variants "
        "(five routes to the same dataset incl. save+reopen and fresh interpreters with other hash seeds; four non-geometry edits; "
        "every kind of single geometry edit) and TLC parses the exact update() payload sequence against the input's geometry "
        "variables and checks same geometry => same stream and key, different geometry => different key, key a function of the stream.",
   note="blake2b trusted; marshal treated as opaque but required functional (known finding F7: it is not).",
   ref="5 C16"),
 "C17": dict(
   text="TLC checks for every UTC offset -12:00..+14:00 in 15-minute steps x periods x dates on month / year / leap boundaries x "
        "times around midnight (50 400 states) that the EMS string for the reference instant has the EMS form, parses to valid "
        "fields and denotes the same instant and offset, and that the civil-date arithmetic used is self-inverse; "
        "format_time_units_for_ems is run on generated unit strings in six writing styles for every offset and TLC parses the "
        "returned code points (EmsForm, SameInstant); Convention.to_netcdf + reopen on datasets of every convention: raw units "
        "attribute in EMS form for the same instant, decoded time instants, convention, polygons and all values identical, no new "
        "_FillValue attributes.",
   note="Offsets are written with two hour digits (the reading of one-digit hours differs between cftime and ISO-8601); third-party netCDF I/O trusted.",
   ref="5 C17"),
 "C18": dict(
   text="TLC checks on a block of lattice cells with a hole, for every valid simple path of 2 (quick) / 3 (thorough) vertices with "
        "axis-parallel or 45-degree segments on the quarter-cell lattice, that the operational pieces (maximal runs of unit steps "
        "inside a closed cell) lie inside their cell, are maximal and disjoint per cell, cover exactly the steps inside the model, "
        "and that their lengths add up unless a step runs along a shared edge (then it is counted twice); Transect.segments and "
        "prepare_data_array_for_transect on datasets of every convention for fixed and seeded polylines are validated by TLC as a "
        "refinement: per cell the observed segments tile exactly the steps inside it, end points on the path with start before "
        "end, cell indexes coherent, listing and metre distances in path order, prepared values = the segment's cell at every depth.",
   note="cfunits stand-in; metres used for order only; simple paths; known finding F9 (paths along shared edges are double counted).",
   ref="5 C18"),
 "C19": dict(
   text="TLC checks on the bounded universe that the specification's collection pairs every valid cell's outline with that cell's "
        "value (one patch per valid cell, none for holes) and that a variable with leftover dimensions has no collection; recorded "
        "matplotlib artists (PolyCollection paths / array / clim / transform, Quiver XY / U / V / mask) for generated datasets with "
        "holes, scalars by name / as arrays / anonymous, either dimension order, clim / array / transform overrides and the two "
        "refusals are validated by TLC (PatchPerValidCell, ValuePairs, ClimSpansValues, OverridesRespected, Refused, QuiverPairs).",
   note="Artists' contents only (no rendering). Quiver components are read through matplotlib's joint mask.",
   ref="5 C19"),
 "C20": dict(
   text="TLC checks that a left-to-right scanner (what a full match of the bounds regular expression does) agrees with the "
        "declarative bounds grammar on 9 201 strings (sentences of decimal forms x separators, and every single-character insert / "
        "delete / replace of base sentences) and that only exactly four numbers are bounds; every generated argument string goes "
        "through bounds_argument / geometry_argument and TLC decides acceptance and the exact box (values in thousandths); GeoJSON "
        "strings and files come back as exactly that geometry and malformed / unknown-suffix / missing inputs are refused; "
        "emsarray.cli.main runs in subprocesses on datasets of every detectable convention (clip with bounds / GeoJSON, extract-"
        "points x three policies incl. misses, export-geometry x four formats explicit and guessed, failing requests) and TLC checks "
        "output file = projection of the corresponding library call, non-zero exit with a message when the library call fails or "
        "the request is bad, and no output file on failure.",
   note="Library calls themselves are judged by C05/C08/C15; CLI run with the synchronous dask scheduler; ArakawaC is not reachable from the CLI.",
   ref="5 C20"),
}
HARVEST = {pid: " Thorough tier also runs the repository's whole test suite under a recording plugin and has TLC judge every recorded call of "
                  + what + " with the same trace specification (reported under this property)."
           for pid, what in {"C03": "utils.ravel_dimensions / wind_dimension (all Convention.ravel / wind traffic)",
                             "C07": "masking.blur_mask / smear_mask (all make_clip_mask traffic)",
                             "C12": "operations.depth.ocean_floor", "C13": "operations.depth.normalize_depth_variables",
                             "C17": "utils.format_time_units_for_ems", "C20": "cli.utils.bounds_argument / geometry_argument"}.items()}
HARVEST["C11"] = (" Thorough tier also shows with Apalache that the binding invariants (CachedIsBound, BoundBelongs) are inductive and that every "
                  "step from any state satisfying them keeps BoundStable / NewStartUnbound / CopiesIndependent (spec/apalache/Binding.tla), i.e. at any depth.")
for _pid in ("C01", "C02", "C03", "C04", "C05", "C06", "C07", "C08", "C09", "C12", "C13", "C14", "C15", "C17", "C18", "C19"):
    HARVEST[_pid] = HARVEST.get(_pid, "") + (" Every generated world is concretised in varying ways (in memory / lazily reopened netCDF file / dask-backed / "
                                             "emsarray.open_dataset; other dimension and coordinate names; x-before-y dimension order; on-disk encodings).")
HARVEST["C17"] += (" Both tiers also save datasets DERIVED by depth normalisation (coordinate stored narrower than its bounds, file-held) and "
                   "have TLC compare what is read back with the specification's normalised dataset (Trace_Depth.SavedAsHeld, sub-check C17D).")
PENDING_REASON = "check not built yet in this round (specification and binding under construction; see DESIGN.md section 13)"
props = [json.loads(l) for l in (V / "properties.jsonl").read_text().splitlines() if l.strip()]
checks, na = [], []
for p in props:
    pid = p["id"]
    if pid in CLAIMED:
        c = CLAIMED[pid]
        checks.append({
            "property_id": pid,
            "quick_cmd": f"./check {pid} --tier quick",
            "thorough_cmd": f"./check {pid} --tier thorough",
            "evidence_file": f"evidence/{pid}.json",
            "replay_cmd_template": f"./check {pid} --replay {{path}}",
            "engine": "tlc+harness",
            "level_claimed": {"category": "model_checking", "text": c["text"] + HARVEST.get(pid, ""), "design_ref": c["ref"]},
            "level_note": c["note"],
            "technique": c.get("technique", TECH),
        })
    else:
        na.append({"property_id": pid, "reason": PENDING_REASON})
m = {
 "version": 1,
 "setup_cmd": "./setup.sh",
 "hooks": {
   "guard": "EMSARRAY_VERIF_TRACE",
   "enable": "no source hooks in /repo: the abstract state is observable through the public API; checks import /repo/src through /venv's editable install. "
             "EMSARRAY_VERIF_TRACE=<dir> switches on harness/harvest_plugin.py (a pytest plugin living in /verif, loaded with -p) which wraps public functions "
             "from the outside while the repository's own tests run and records their calls for the trace specifications; unset, nothing is wrapped",
   "baseline_off_cmd": "cd /repo && /venv/bin/python -m pytest -ra -q -p no:cacheprovider --timeout=900 --continue-on-collection-errors",
   "source_commits": [],
   "add_only": True,
 },
 "engines": [
   {"name": "tlc", "path": "spec/", "serves_properties": [c["property_id"] for c in checks],
    "kind_free_text": "TLA+ specification modules, MC_* model-checking configurations, Gen_* case emission, Trace_* trace specifications (TLC 1.8)"},
   {"name": "harness", "path": "harness/", "serves_properties": [c["property_id"] for c in checks],
    "kind_free_text": "Python concretiser / drivers / projection executed with /venv/bin/python against /repo's working tree; verdicts come from TLC only"},
 ],
 "checks": checks,
 "not_applicable": na,
 "notes": "See DESIGN.md. known_findings.json lists recorded defects; replays/ holds rejected traces of the last runs.",
}
(V / "MANIFEST.json").write_text(json.dumps(m, indent=1) + "\n")
print("claimed", [c["property_id"] for c in checks])
