#!/bin/sh
# tools/seedcheck.sh <seed-name> <worktree> <property> [checks to run ...]
# 1. confirm the sub-agent's claims in its scratch worktree (suite pass count, demo fails with / passes without)
# 2. apply the patch to /repo, run the given checks (quick), undo it straight afterwards
# 3. keep patch, demo and meta.json under /verif/seeded/<seed-name>/
name="$1"; wt="$2"; prop="$3"; shift 3
out=/verif/seeded/$name
mkdir -p "$out"
cp "$wt/out/patch.diff" "$wt/out/demo.py" "$out/" 2>/dev/null
cp "$wt/out/notes.md" "$out/agent_notes.md" 2>/dev/null
cd "$wt" || exit 2
if [ -f "$wt/out/verify.txt" ]; then   # already confirmed by tools/seedverify.sh
  passed=$(sed -n 1p "$wt/out/verify.txt"); with=$(sed -n 2p "$wt/out/verify.txt"); without=$(sed -n 3p "$wt/out/verify.txt")
else
passed=$(PYTHONPATH=$wt/src /venv/bin/python -m pytest -q -p no:cacheprovider --timeout=900 --continue-on-collection-errors 2>&1 | tail -1)
PYTHONPATH=$wt/src /venv/bin/python -W ignore "$wt/out/demo.py" >/dev/null 2>&1; with=$?
PYTHONPATH=/repo/src /venv/bin/python -W ignore "$wt/out/demo.py" >/dev/null 2>&1; without=$?
fi
echo "suite with change: $passed"; echo "demo exit with change: $with   without: $without"
cd /verif
mkdir -p .work/evidence-changed-tree; export VERIF_EVIDENCE_DIR=/verif/.work/evidence-changed-tree
if ! git -C /repo apply --check "$out/patch.diff" 2>/dev/null; then echo "PATCH DOES NOT APPLY to /repo"; exit 3; fi
git -C /repo apply "$out/patch.diff"
results=""
for c in "$@"; do
  r=$(./check "$c" --tier quick 2>&1 | grep -E "VIOLATION|MACHINERY|: ok|FAIL" | tail -1 | cut -c1-160)
  code=$(echo "$r" | grep -c -E "FAIL|VIOLATION")
  echo "  $c -> $r"
  results="$results$c:$( [ "$code" -gt 0 ] && echo caught || echo missed ) "
done
git -C /repo checkout -- .
git -C /repo status --short | grep -v egg-info
python3 - "$name" "$prop" "$passed" "$with" "$without" "$results" <<'PY'
import json, sys
name, prop, passed, w, wo, results = sys.argv[1:7]
meta = {"seed": name, "property": prop, "suite_with_change": passed, "demo_exit_with_change": int(w), "demo_exit_without_change": int(wo),
        "checks_run_quick": dict(r.split(":") for r in results.split()), "needs_to_manifest": "", "source": "independent sub-agent, given only the property text"}
try:
    old = json.load(open(f"/verif/seeded/{name}/meta.json")); meta["needs_to_manifest"] = old.get("needs_to_manifest", "")
except Exception: pass
json.dump(meta, open(f"/verif/seeded/{name}/meta.json", "w"), indent=1)
PY
