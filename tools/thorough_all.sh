#!/bin/sh
# tools/thorough_all.sh [ids...]: run the thorough tier of every claimed check (sequentially), print one line each
cd "$(dirname "$0")/.." || exit 2
mkdir -p .work
ids="$*"
[ -z "$ids" ] && ids=$(python3 -c "import json;print(' '.join(c['property_id'] for c in json.load(open('MANIFEST.json'))['checks']))")
for p in $ids; do
  s=$(date +%s)
  ./check "$p" --tier thorough > .work/thorough-$p.log 2>&1; rc=$?
  echo "$p rc=$rc $(( $(date +%s) - s ))s $(grep -E 'VIOLATION|MACHINERY' .work/thorough-$p.log | head -2 | cut -c1-200 | tr '\n' ' ')"
done
echo thorough-done
