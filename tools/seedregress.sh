#!/bin/sh
# tools/seedregress.sh [names...]: every stored seeded change is applied in a scratch worktree (/tmp/seedtest, PYTHONPATH
# override - /repo is left alone) and the property's own quick check is run: prints the seeds that are NOT caught any more
cd "$(dirname "$0")/.." || exit 2
mkdir -p .work/evidence-changed-tree; export VERIF_EVIDENCE_DIR=$PWD/.work/evidence-changed-tree
wt=/tmp/seedtest
[ -d "$wt" ] || git -C /repo worktree add --detach "$wt" HEAD >/dev/null 2>&1
names="$*"; [ -z "$names" ] && names=$(ls seeded)
for n in $names; do
  prop=$(python3 -c "import json;print(json.load(open('seeded/$n/meta.json'))['property'])")
  own=$(python3 -c "import json;m=json.load(open('seeded/$n/meta.json'));c=m['checks_run_quick'];print(' '.join(k for k,v in c.items() if v=='caught') or m['property'])")
  git -C "$wt" checkout -q -- . ; git -C "$wt" clean -fdq src 2>/dev/null
  if ! git -C "$wt" apply "$PWD/seeded/$n/patch.diff" 2>/dev/null; then echo "$n: PATCH DOES NOT APPLY"; continue; fi
  caught=no
  for c in $own; do
    if PYTHONPATH=$wt/src ./check "$c" --tier quick 2>&1 | grep -q "VIOLATION"; then caught="$c"; break; fi
  done
  [ "$caught" = no ] && echo "$n: NOT CAUGHT by $own" || echo "$n: caught by $caught"
done
git -C "$wt" checkout -q -- .
echo seedregress-done
