#!/bin/sh
# tools/seedverify.sh <worktree>: confirm a sub-agent's claims in its scratch worktree without touching /repo:
# suite pass line with the change, demo exit with / without the change.  Result in <worktree>/out/verify.txt
wt="$1"
cd "$wt" || exit 2
passed=$(PYTHONPATH=$wt/src /venv/bin/python -m pytest -q -p no:cacheprovider --timeout=900 --continue-on-collection-errors 2>&1 | tail -1)
PYTHONPATH=$wt/src /venv/bin/python -W ignore "$wt/out/demo.py" >/dev/null 2>&1; with=$?
PYTHONPATH=/repo/src /venv/bin/python -W ignore "$wt/out/demo.py" >/dev/null 2>&1; without=$?
printf '%s\n%s\n%s\n' "$passed" "$with" "$without" > "$wt/out/verify.txt"
echo "$wt: $passed | demo with=$with without=$without"
