#!/bin/sh
# Run the repository's pinned suite (guard off: there is no guard to set) and compare with BASELINE.json
cd /repo && /venv/bin/python -m pytest -ra -q -p no:cacheprovider --timeout=900 --continue-on-collection-errors --junitxml=/verif/.work/junit.xml >/verif/.work/pytest.log 2>&1
python3 - <<'PY'
import json, xml.etree.ElementTree as ET
base=set(json.load(open('/root/.vp/BASELINE.json'))['stable_pass'])
t=ET.parse('/verif/.work/junit.xml')
passed=set()
for tc in t.iter('testcase'):
    if not any(ch.tag in ('failure','error','skipped') for ch in tc):
        passed.add(tc.get('classname')+'::'+tc.get('name'))
missing=sorted(base-passed)
print("baseline", len(base), "passed now", len(passed), "baseline tests not passing:", missing)
raise SystemExit(1 if missing else 0)
PY
