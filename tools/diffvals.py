#!/venv/bin/python
"""For a C08/C09 replay: re-run TLC on the single record and print which variables / tables differ (debug aid)."""
import json, sys
d = json.load(open(sys.argv[1]))
l = int(sys.argv[2])
e = d["record"]["events"][l - 1]
o = e["obs"]["ok"]
print({k: v for k, v in e.items() if k not in ("obs", "incoords", "inattrs", "invarattrs")})
for v in o["vars"]:
    print(v["name"], v["dims"], v["shape"], v["dtype"], v["data"][:24])
if "tables" in o:
    for k, t in o["tables"].items():
        print(k, t)
    print(o["has"])
w = d["record"]["w"]
print("world vars:")
for v in w["vars"]:
    print("  ", v["name"], v["kind"], v["dims"], v["shape"], v["base"], v["missing"][:8], v["fillkind"])
if w["conv"] == "ugrid":
    for k in ("fn", "en", "fe", "ef", "ff"):
        print(k, w["mesh"][k])
    print("supplied", w["supplied"], "base", w["base"])
