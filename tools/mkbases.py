#!/venv/bin/python
"""Generate the base worlds shared by MC_System (TLC reads <conv>.tlc.json) and the session driver (<conv>.world.json)."""
import json, pathlib, random, sys
sys.path.insert(0, str(pathlib.Path(__file__).resolve().parent.parent))
from harness.props import sessions
from harness import worlds as W
out = pathlib.Path(__file__).resolve().parent.parent / "spec" / "bases"
rng = random.Random(20261004)
for conv in sessions.BASES:
    w = sessions.base_world(conv, rng)
    ds = W.build(w)
    (out / f"{conv}.world.json").write_text(json.dumps(w))
    (out / f"{conv}.tlc.json").write_text(json.dumps(sessions.tlc_base(w, ds)))
    print(conv, "ok")
