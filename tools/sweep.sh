#!/bin/sh
# tools/sweep.sh "<seeds>" [ids...]: run quick checks over several seeds, print only alarms
cd "$(dirname "$0")/.." || exit 2
seeds="$1"; shift
ids="$*"
[ -z "$ids" ] && ids=$(python3 -c "import json;print(' '.join(c['property_id'] for c in json.load(open('MANIFEST.json'))['checks']))" 2>/dev/null)
for s in $seeds; do for p in $ids; do
  VERIF_SEED=$s ./check "$p" --tier quick 2>&1 | grep -E "VIOLATION|FAIL|MACHINERY|KNOWN" | head -3 | sed "s/^/seed=$s /"
done; done
echo sweep-done
