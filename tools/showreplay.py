#!/venv/bin/python
"""Summarise a replay file: failing clauses per event, with the event arguments and a clipped observation."""
import json, sys
d = json.load(open(sys.argv[1]))
w = d["case"]["world"]
print("world:", w["conv"], {k: w.get(k) for k in ("ny", "nx", "nface", "nnode", "nedge", "coords_as")}, w.get("enc"))
by = {}
for l, c in d["failing"]:
    by.setdefault(l, []).append(c)
for l, cs in sorted(by.items())[: int(sys.argv[2]) if len(sys.argv) > 2 else 6]:
    e = d["record"]["events"][l - 1]
    print(f"event {l}: {cs}")
    print("   args:", {k: (v if len(str(v)) < 120 else str(v)[:120] + '...') for k, v in e.items() if k not in ("obs", "incoords", "inattrs", "invarattrs")})
    print("   obs :", str(e["obs"])[: int(sys.argv[3]) if len(sys.argv) > 3 else 400])
