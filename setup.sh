#!/bin/sh
# Offline setup: syntax-check every specification module, create the scratch area.
cd "$(dirname "$0")" || exit 2
mkdir -p .work evidence
rc=0
for f in spec/*.tla; do
  out=$(cd spec && tla-sany "$(basename "$f")" 2>&1)
  if echo "$out" | grep -q -E "Fatal errors|\*\*\* Errors|Could not|Parse Error"; then
    echo "SANY FAILED: $f"; echo "$out" | tail -20; rc=1
  fi
done
/venv/bin/python -c "import emsarray, xarray, shapely, numpy" || rc=1
[ $rc -eq 0 ] && echo "setup ok"
exit $rc
