"""Shared driver for the depth operations (C12 ocean floor, C13 normalisation)."""
from __future__ import annotations

import itertools
import random
import warnings

import numpy
import xarray

from . import cellsdrv as CD, geoworlds as GW, worlds as W
from .project import BADINT, outcome, polygon_vertices
from .worlds import MISSING

PHYS = [5, 15, 30, 50, 80, 120, 170] + [170 + 10 * k for k in range(1, 141)]      # (up to 147 layers)
DEPTH_NAMES = {"shoc_standard": [("z_centre", "k_centre"), ("z_grid", "k_grid"), ("z_centre_sed", "k_centre_sed"), ("z_grid_sed", "k_grid_sed")],
               "shoc_simple": [("zc", "k"), ("zcsed", "ksed")]}
GENERIC_NAMES = [("depth", "k"), ("depth_w", "kw")]


def depth_coord(name, dim, K, down, deepfirst, attr, bounds, same_name_dim=False):
    p = PHYS[:K]
    if deepfirst:
        p = p[::-1]
    vals = [v if down else -v for v in p]
    return {"name": dim if same_name_dim else name, "dim": dim, "vals": vals,
            "positive": ("down" if down else "up") if attr else "",
            "bounds": [[v - 2, v + 3] for v in vals] if bounds else []}


def make_world(conv: str, rng: random.Random, *, two: bool, K: int, twin: bool = False, sediment: bool | None = None,
               twin_at: int | None = None, grid: tuple | None = None) -> dict:
    if conv == "ugrid":
        w = GW.mesh_world(W.mesh_from_squares([["Q", "A"], ["B", "N"]]), enc={"base": 0, "fill": "intfill"})
    elif conv == "cf1d":
        w = GW.structured_world(conv, 2, 3, bounds=True)
    elif grid:
        w = GW.structured_world(conv, grid[0], grid[1], shape="skew", **({"bounds": True} if conv in ("cf2d", "shoc_simple") else {}))
    else:
        w = GW.structured_world(conv, 2, 2, shape="skew")
    names = DEPTH_NAMES.get(conv, GENERIC_NAMES)
    depths = []
    # (SHOC standard files with sediment layers carry four depth coordinates; data variables sit on the first two)
    if sediment is None:
        sediment = K % 2 == 0
    for k, (name, dim) in enumerate(names[: (len(names) if (two and conv == "shoc_standard" and sediment) else 2 if two else 1)]):
        depths.append(depth_coord(name, dim, K + k, rng.random() < .5, rng.random() < .5, rng.random() < .7,
                                  rng.random() < .5, same_name_dim=(conv not in DEPTH_NAMES and rng.random() < .5)))
    if twin and conv not in DEPTH_NAMES:
        # a second depth coordinate on the SAME dimension describing the same levels with the opposite sign convention
        # (e.g. `depth` positive down next to `z` positive up)
        d0 = depths[0]
        down0 = (d0["positive"] == "down") if d0["positive"] else (sum(1 for v in d0["vals"] if v > 0) * 2 > len(d0["vals"]))
        depths.append({"name": "z_twin", "dim": d0["dim"], "vals": [-v for v in d0["vals"]],
                       "positive": "up" if down0 else "down", "bounds": []})
    tname = "time" if conv == "shoc_simple" else "t"
    w["extras"] = [{"name": "t", "size": 2, "coord": {"name": tname, "kind": "time", "values": [0, 6]}}]
    g = ["@0", "@1"] if len(W.kind_shape(w, "face")) == 2 else ["@0"]
    gshape = list(W.kind_shape(w, "face"))
    ncell = int(numpy.prod(gshape))
    variables = []
    base = 1000

    def add(name, dims_tokens, depth=None, wet=None, dtype="f8"):
        nonlocal base
        dims = []
        shape = []
        gd = W.kind_dims(w, "face")
        for d in dims_tokens:
            if d.startswith("@"):
                dims.append(gd[int(d[1:])]); shape.append(gshape[int(d[1:])])
            elif d == "t":
                dims.append("t"); shape.append(2)
            else:
                dc = depths[int(d[1:])]
                dims.append(dc["dim"]); shape.append(len(dc["vals"]))
        n = int(numpy.prod(shape)) if shape else 1
        data = list(range(base, base + n))
        base += n + 13
        if depth is not None:
            dc = depths[depth]
            K_ = len(dc["vals"])
            for q in range(n):
                idx = numpy.unravel_index(q, shape)
                cell = int(numpy.ravel_multi_index([idx[dims.index(x)] for x in gd], gshape))
                layer = idx[dims.index(dc["dim"])]
                if not wet[cell][layer]:
                    data[q] = MISSING
        variables.append({"name": name, "dims": dims, "shape": shape, "data": data, "dtype": dtype})

    def wet_table(dc):
        """static sea floor: per cell which layers hold data (shallowest n layers wet, a few gaps)"""
        K_ = len(dc["vals"])
        order = sorted(range(K_), key=lambda k: abs(dc["vals"][k]))       # shallow -> deep
        table = []
        for c in range(ncell):
            nwet = rng.randint(0, K_)
            row = [False] * K_
            for k in order[:nwet]:
                row[k] = True
            if nwet >= 3 and rng.random() < .3:
                row[order[rng.randrange(nwet - 1)]] = False                 # a gap above the floor
            table.append(row)
        table[0] = [True] * K_
        if ncell > 1:
            table[1] = [False] * K_                                         # an all-dry column
        return table
    wet0 = wet_table(depths[0])
    d = ["t", "z0"] + g
    rng.shuffle(d)
    add("temp", d, depth=0, wet=wet0)
    d2 = ["z0"] + g
    rng.shuffle(d2)
    add("salt", d2, depth=0, wet=wet0, dtype="f4")
    if two:
        wet1 = wet_table(depths[1])
        d3 = g + ["z1"] if rng.random() < .5 else ["z1", "t"] + g
        add("sed", d3, depth=1, wet=wet1)
    add("eta", ["t"] + g)
    add("botz", list(g))
    w["depthvars"] = variables
    if twin and twin_at is not None and depths[-1]["name"] == "z_twin":
        # the twin listed right after the coordinate it shares a dimension with, BEFORE the coordinates of other dimensions
        depths.insert(twin_at, depths.pop())
    w["depths"] = depths
    return w


def build(w: dict) -> xarray.Dataset:
    ds = W.build(w)
    conv = w["conv"]
    for dc in w["depths"]:
        attrs = {"units": "m", "long_name": "depth " + dc["name"]}
        if dc["positive"]:
            attrs["positive"] = dc["positive"]
        elif conv not in DEPTH_NAMES:
            attrs["axis"] = "Z"          # still recognisable as a depth coordinate without `positive`
        # (the SHOC conventions find their depth coordinates by NAME: there they carry no CF marker at all)
        data_vars = {}
        if dc["bounds"]:
            attrs["bounds"] = dc["name"] + "_bnds"
            ds[dc["name"] + "_bnds"] = xarray.DataArray(numpy.array(dc["bounds"], dtype="f8"), dims=[dc["dim"], "zbnd"])
        da = xarray.DataArray(numpy.array(dc["vals"], dtype=dc.get("dtype", "f8")), dims=[dc["dim"]], attrs=attrs)
        if dc["name"] == dc["dim"]:
            ds = ds.assign_coords({dc["name"]: da})
        else:
            ds[dc["name"]] = da
            if w.get("depth_as", "coords") == "coords":       # (after reset_coords / decode_coords=False they are plain variables)
                ds = ds.set_coords(dc["name"])
    if w.get("depth_bounds_as") == "coords":
        ds = ds.set_coords([dc["name"] + "_bnds" for dc in w["depths"] if dc["bounds"]])
    for v in w["depthvars"]:
        arr = numpy.array([numpy.nan if x == MISSING else float(x) for x in v["data"]], dtype=v["dtype"]).reshape(v["shape"])
        ds[v["name"]] = xarray.DataArray(arr, dims=v["dims"])
    return ds


def proj_D(w: dict, ds: xarray.Dataset) -> dict:
    depths = []
    for dc in w["depths"]:
        if dc["name"] not in ds.variables:
            depths.append({"name": dc["name"], "dim": "", "vals": [], "positive": "", "bounds": []})
            continue
        v = ds[dc["name"]]
        vals = [int(x) if float(x) == int(x) else BADINT for x in numpy.asarray(v.values, dtype=float).tolist()]
        bname = v.attrs.get("bounds")
        bounds = []
        if dc["bounds"] and bname in ds.variables:
            bounds = [[int(a), int(b)] for a, b in numpy.asarray(ds[bname].values, dtype=float).tolist()]
        pos = v.attrs.get("positive", "")
        depths.append({"name": dc["name"], "dim": str(v.dims[0]) if v.dims else "", "vals": vals,
                       "positive": pos if isinstance(pos, str) else "?", "bounds": bounds})
    vars_ = []
    for sv in w["depthvars"]:
        if sv["name"] in ds.variables:
            a = CD.proj_array(sv["name"], ds[sv["name"]])
            vars_.append({"name": a["name"], "dims": a["dims"], "shape": a["shape"], "data": a["data"]})
    return {"depths": depths, "vars": vars_}


def tlc_world(w: dict) -> dict:
    return {"conv": w["conv"], "nonspatial": ["t"],
            "D": {"depths": [{k: v for k, v in dc.items() if k != "dtype"} for dc in w["depths"]],      # (the storage type is not part of the abstract coordinate)
                  "vars": [{k: v[k] for k in ("name", "dims", "shape", "data")} for v in w["depthvars"]]}}


def execute(case: dict) -> dict:
    from emsarray.operations import depth
    w = case["world"]
    from . import viafile
    ds = viafile.hold_ds(w, build(w))
    conv = W.bind(w, ds)
    rec = {"tid": case["tid"], "src": case["src"], "w": tlc_world(w), "events": []}
    # (a case that corrects an attribute in place modifies that coordinate on purpose)
    skip = {dc["name"] for dc in w["depths"]} if any(e["a"] == "SetPositive" for e in case["events"]) else set()
    before = CD.snapshot(ds, skip)
    convs = {id(ds): (ds, conv)}

    def conv_of(d):
        """the convention object of a dataset, bound once (plain Arakawa C has to be bound by hand, and only once)"""
        if id(d) not in convs:
            convs[id(d)] = (d, W.bind(w, d))
        return convs[id(d)][1]
    cur = ds
    opt = {"none": None, "yes": True, "no": False}
    names = [dc["name"] for dc in w["depths"]]
    for e in case["events"]:
        e = dict(e)
        if e["a"] == "Normalize":
            def norm():
                nonlocal cur
                c = cur
                with warnings.catch_warnings(record=True) as caught:
                    warnings.simplefilter("always")
                    if e["via"] == "accessor":
                        cc = conv_of(c)
                        r = cc.normalize_depth_variables(positive_down=opt[e["pd"]], deep_to_shallow=opt[e["d2s"]])
                    else:
                        # (the function takes any iterable of coordinates: a list, or a one-shot iterator / generator)
                        given = names if e.get("spelling", "list") == "list" else (iter(names) if e["spelling"] == "iter" else (n for n in names))
                        r = depth.normalize_depth_variables(c, given, positive_down=opt[e["pd"]], deep_to_shallow=opt[e["d2s"]])
                out = {"D": proj_D(w, r), "input": proj_D(w, c), "warned": len(caught) > 0}
                cur = r
                return out
            e["obs"] = outcome(norm)
        elif e["a"] == "Save":
            def save():
                # the dataset as it stands (normalised or not) is written with the EMS fixes and read back
                import tempfile
                from . import tlc as _tlc
                with tempfile.TemporaryDirectory(dir=str(_tlc.WORK)) as td:
                    p = td + "/saved.nc"
                    conv_of(cur).to_netcdf(p)
                    r = xarray.open_dataset(p).load()
                    r.close()
                return {"D": proj_D(w, r)}
            e["obs"] = outcome(save)
        elif e["a"] == "SetPositive":
            def setpos():
                cur[names[e["k"] - 1]].attrs["positive"] = e["value"]
                return {"value": e["value"]}
            e["obs"] = outcome(setpos)
        elif e["a"] == "Touch":
            def touch():
                cc = conv_of(cur)
                forvar = []
                for sv in w["depthvars"]:
                    r_ = outcome(lambda: str(cc.get_depth_coordinate_for_data_array(sv["name"]).name))
                    forvar.append({"var": sv["name"], "coord": r_.get("ok", ""), "err": r_.get("err", "")})
                return {"names": sorted(str(d.name) for d in cc.depth_coordinates), "n": len(list(cc.get_all_depth_names())),
                        "forvar": forvar}
            e["obs"] = outcome(touch)
        elif e["a"] == "OceanFloor":
            def floor():
                c = cur
                cc = conv_of(c)
                inpolys = [polygon_vertices(p) for p in cc.polygons]
                if e["via"] == "accessor":
                    r = cc.ocean_floor()
                else:
                    r = depth.ocean_floor(c, names, non_spatial_variables=[cc.time_coordinate])
                from .clipdrv import bind_like
                rc, cname = bind_like(w, r)
                e["inpolys"] = inpolys
                e["inconv"] = type(cc).__name__
                p = proj_D(w, r)
                return {"vars": p["vars"], "alldims": [str(d) for d in r.dims], "allnames": [str(n) for n in r.variables],
                        "polys": [polygon_vertices(p_) for p_ in rc.polygons], "conv": cname}
            e["obs"] = outcome(floor)
            e.setdefault("inpolys", []); e.setdefault("inconv", "")
        rec["events"].append(e)
    rec["input"] = {"before": before, "after": CD.snapshot(ds, skip)}
    return rec


def cases(tier: str, seed: int, *, kinds=("norm", "floor")) -> list[dict]:
    out = _cases(tier, seed, kinds=kinds)
    vias = ["memory", "file", "memory", "dask", "emsopen"]       # how the dataset is held (viafile.hold)
    nf = 0
    for c in out:
        for e in c["events"]:
            if e["a"] == "Normalize" and e["via"] == "function":
                e["spelling"] = ["list", "iter", "generator"][nf % 3]
                nf += 1
    for k, c in enumerate(out):
        c["world"]["via"] = c["world"].get("pin_via") or vias[k % len(vias)]
        if k % 3 == 1:
            c["world"]["depth_as"] = "vars"
        if k % 2 == 0:
            c["world"]["decoy"] = True      # see worlds.bind
    return out


def _cases(tier: str, seed: int, *, kinds=("norm", "floor")) -> list[dict]:
    rng = random.Random(seed + 1213)
    out = []
    opts = ["none", "yes", "no"]
    n_per = 3 if tier == "quick" else 12
    for conv in W.ALL_CONVS:
        for rep in range(n_per):
            w = make_world(conv, rng, two=rep % 2 == 1, K=rng.randint(2, 4 if tier == "quick" else 6), sediment=(rep % 4 == 1))
            ev = []
            if "norm" in kinds:
                combos = list(itertools.product(opts, opts))
                rng.shuffle(combos)
                for pd, d2s in combos[: (3 if tier == "quick" else 5)]:
                    via = "accessor" if rng.random() < .5 else "function"
                    ev.append({"a": "Normalize", "pd": pd, "d2s": d2s, "via": via})
                    if rng.random() < .6:
                        ev.append({"a": "Normalize", "pd": pd, "d2s": d2s, "via": "function"})     # repeated application
            if "floor" in kinds:
                if rng.random() < .5:
                    ev.append({"a": "Normalize", "pd": rng.choice(opts), "d2s": rng.choice(opts), "via": "function"})
                ev.append({"a": "OceanFloor", "via": "accessor" if rng.random() < .5 else "function"})
                ev.append({"a": "OceanFloor", "via": "accessor"})        # asked again of the same dataset object
            # the depth coordinates of the dataset have been looked at before (same dataset object, same convention object)
            ev.insert(0, {"a": "Touch", "via": "accessor"})
            if rep % 2 == 0:
                # ... and then the user corrects the direction attribute of the first depth coordinate IN PLACE
                d0 = w["depths"][0]
                ev.insert(1, {"a": "SetPositive", "k": 1, "value": "up" if d0["positive"] == "down" else "down", "via": "in-place"})
            out.append({"src": "gen", "world": w, "events": ev})
    # SHOC simple files whose zc carries no `positive` attribute: the direction is guessed from the values, also through
    # the accessor (both directions, both layer orders)
    for down in (True, False):
        for deepfirst in (True, False):
            w = make_world("shoc_simple", rng, two=False, K=3)
            w["depths"][0] = depth_coord("zc", "k", 3, down, deepfirst, False, False)
            ev = [{"a": "Touch", "via": "accessor"}]
            if "norm" in kinds:
                ev += [{"a": "Normalize", "pd": "yes", "d2s": "no", "via": "accessor"}]
            if "floor" in kinds:
                ev += [{"a": "OceanFloor", "via": "accessor"}]
            out.append({"src": "gen", "world": w, "events": ev})
    # a single row / a single column of cells (a dimension of length one), SHOC depth coordinates found by name only
    for conv, grid in (("shoc_simple", (1, 3)), ("shoc_simple", (3, 1)), ("shoc_standard", (1, 2)), ("cf2d", (1, 3))):
        w = make_world(conv, rng, two=True, K=3, grid=grid, sediment=False)
        if conv in DEPTH_NAMES:
            for dc in w["depths"]:
                dc["positive"] = ""
        ev = [{"a": "Touch", "via": "accessor"}]
        if "norm" in kinds:
            ev += [{"a": "Normalize", "pd": "yes", "d2s": "no", "via": "accessor"}, {"a": "Normalize", "pd": "no", "d2s": "yes", "via": "accessor"}]
        if "floor" in kinds:
            ev += [{"a": "OceanFloor", "via": "accessor"}]
        out.append({"src": "gen", "world": w, "events": ev})
    if "norm" in kinds:
        # a depth coordinate stored in a narrower type (bytes) than its bounds (doubles, reaching beyond a byte), held in
        # a file; normalised with a change of sign, then saved and read back: the file holds what the dataset held
        for conv in ("cf1d", "shoc_simple", "ugrid"):
            w = make_world(conv, rng, two=False, K=6)
            d0 = depth_coord(w["depths"][0]["name"], w["depths"][0]["dim"], 6, True, False, True, True)
            d0["dtype"] = "i1"
            d0["bounds"] = [[v - 2, v + 10] for v in d0["vals"]]
            w = _with_coord(w, d0)
            w["pin_via"] = "file"
            out.append({"src": "gen", "world": w, "events": [
                {"a": "Touch", "via": "accessor"}, {"a": "Save", "via": "accessor"},
                {"a": "Normalize", "pd": "no", "d2s": "none", "via": "accessor"}, {"a": "Save", "via": "accessor"},
                {"a": "Normalize", "pd": "yes", "d2s": "yes", "via": "function"}, {"a": "Save", "via": "accessor"}]})
    if "floor" in kinds:
        # more layers than a byte can count (the floor of the first column is the very last layer)
        for conv, down, deepfirst in (("cf2d", True, False), ("ugrid", False, True)):
            w = make_world(conv, rng, two=False, K=140)
            w["depths"][0] = depth_coord(w["depths"][0]["name"], w["depths"][0]["dim"], 140, down, deepfirst, True, False)
            out.append({"src": "gen", "world": w, "events": [{"a": "OceanFloor", "via": "function"}, {"a": "OceanFloor", "via": "accessor"}]})
    if "norm" in kinds:
        # two coordinates on one dimension, opposite sign conventions, NEITHER with a positive attribute (each is judged by its
        # own values)
        for conv in ("cf1d", "ugrid"):
            w = make_world(conv, rng, two=False, K=3, twin=True)
            for dc in w["depths"]:
                dc["positive"] = ""
            ev = [{"a": "Touch", "via": "accessor"}]
            for pd, d2s in (("yes", "none"), ("no", "yes"), ("yes", "no")):
                ev.append({"a": "Normalize", "pd": pd, "d2s": d2s, "via": "accessor" if len(ev) % 2 else "function"})
            out.append({"src": "gen", "world": w, "events": ev})
    # a mesh whose topology names an edge dimension that no variable uses (edges are optional)
    wq = make_world("ugrid", rng, two=True, K=3)
    wq["enc"] = dict(wq.get("enc") or {}, edge_dim="declared", supplied=[])
    ev = [{"a": "Touch", "via": "accessor"}]
    if "norm" in kinds:
        ev += [{"a": "Normalize", "pd": "yes", "d2s": "no", "via": "accessor"}, {"a": "Normalize", "pd": "no", "d2s": "yes", "via": "accessor"}]
    if "floor" in kinds:
        ev += [{"a": "OceanFloor", "via": "accessor"}]
    out.append({"src": "gen", "world": wq, "events": ev})
    # three depth coordinates, two of them on one dimension and listed before the third
    for conv in [c for c in W.ALL_CONVS if c not in DEPTH_NAMES]:
        for rep in range(1 if tier == "quick" else 3):
            w = make_world(conv, rng, two=True, K=rng.randint(2, 4), twin=True, twin_at=1)
            ev = [{"a": "Touch", "via": "accessor"}]
            if "norm" in kinds:
                ev += [{"a": "Normalize", "pd": "yes", "d2s": "no", "via": "accessor" if rep % 2 == 0 else "function"}]
            if "floor" in kinds:
                ev += [{"a": "OceanFloor", "via": "function" if rep % 2 == 0 else "accessor"}, {"a": "OceanFloor", "via": "accessor"}]
            out.append({"src": "gen", "world": w, "events": ev})
    if "norm" in kinds:
        # two coordinates on one depth dimension, through the accessor and through the function
        for conv in [c for c in W.ALL_CONVS if c not in DEPTH_NAMES]:
            for rep in range(1 if tier == "quick" else 4):
                w = make_world(conv, rng, two=False, K=rng.randint(2, 4), twin=True)
                combos = list(itertools.product(opts, opts))
                rng.shuffle(combos)
                ev = []
                for pd, d2s in combos[: (4 if tier == "quick" else 9)]:
                    ev.append({"a": "Normalize", "pd": pd, "d2s": d2s, "via": "accessor" if len(ev) % 2 == 0 else "function"})
                out.append({"src": "gen", "world": w, "events": ev})
        # all nine combinations on one fixed coordinate per orientation
        for down, deepfirst, attr in itertools.product((True, False), (True, False), (True, False)):
            for pd, d2s in itertools.product(opts, opts):
                w = make_world("cf2d", rng, two=False, K=3)
                w["depths"][0] = depth_coord("depth", "k", 3, down, deepfirst, attr, True)
                w2 = make_world("cf2d", random.Random(1), two=False, K=3)
                out.append({"src": "mc", "world": _with_coord(w2, depth_coord("depth", "k", 3, down, deepfirst, attr, True)),
                            "events": [{"a": "Normalize", "pd": pd, "d2s": d2s, "via": "function"},
                                       {"a": "Normalize", "pd": pd, "d2s": d2s, "via": "function"}]})
    if "norm" in kinds:
        # round 13: depth bounds held as COORDINATES of the dataset (set_coords / decode_coords="all") instead of data
        # variables; the sign is flipped, so the bounds must follow
        r13 = random.Random(1313)
        for conv in ("cf1d", "shoc_standard", "ugrid", "cf2d"):
            for down in (True, False):
                w = make_world(conv, r13, two=False, K=3)
                w = _with_coord(w, depth_coord(w["depths"][0]["name"], w["depths"][0]["dim"], 3, down, False, True, True))
                w["depth_bounds_as"] = "coords"
                w["pin_via"] = "memory" if down else "file"
                out.append({"src": "gen", "world": w, "events": [
                    {"a": "Normalize", "pd": "no" if down else "yes", "d2s": "none", "via": "function"},
                    {"a": "Normalize", "pd": "yes" if down else "no", "d2s": "yes", "via": "accessor"}]})
    return out


def _with_coord(w, dc):
    w["depths"][0] = dc
    return w


from . import viafile as _viafile  # noqa: E402
execute = _viafile.closing(execute)
