from __future__ import annotations

import argparse
import importlib
import os
import sys

from . import core


def main(argv=None) -> int:
    ap = argparse.ArgumentParser()
    ap.add_argument("pid")
    ap.add_argument("--tier", default=os.environ.get("VERIF_TIER", "quick"), choices=["quick", "thorough"])
    ap.add_argument("--seed", type=int, default=int(os.environ.get("VERIF_SEED", "0") or 0))
    ap.add_argument("--replay")
    args = ap.parse_args(argv)
    import dask
    dask.config.set(scheduler="synchronous")
    name = {"sys": "sessions"}.get(args.pid.lower(), args.pid.lower())
    mod = importlib.import_module(f"harness.props.{name}")
    return core.check(mod, args.tier, args.seed, replay=args.replay)


if __name__ == "__main__":
    sys.exit(main())
