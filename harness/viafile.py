"""Other ways of holding one and the same dataset: written to netCDF and reopened lazily (what users normally have),
reopened dask-chunked, bounds promoted to coordinate variables.  The abstract world is unchanged; only the
concretisation differs, so every clause of the trace specifications applies as it stands."""
from __future__ import annotations

import os
import shutil
import tempfile

import xarray

from . import tlc


class Held:
    """a dataset plus whatever must stay alive / be cleaned up while it is used"""

    def __init__(self, ds: xarray.Dataset, tmp: str | None = None):
        self.ds = ds
        self.tmp = tmp

    def close(self) -> None:
        try:
            self.ds.close()
        except Exception:
            pass
        if self.tmp:
            shutil.rmtree(self.tmp, ignore_errors=True)


def hold(w: dict, ds: xarray.Dataset) -> Held:
    via = w.get("via", "memory")
    if via == "emsopen" and w.get("conv") == "arakawa":
        via = "file"       # emsarray.open_dataset binds what it detects; plain Arakawa C has to be constructed by hand
    if w.get("bounds_as_coords"):
        names = [ds[n].attrs["bounds"] for n in ds.variables if ds[n].attrs.get("bounds") in ds.data_vars]
        ds = ds.set_coords(names)
    if via == "memory":
        return Held(ds)
    tlc.WORK.mkdir(parents=True, exist_ok=True)
    tmp = tempfile.mkdtemp(prefix="via-", dir=str(tlc.WORK))
    p = os.path.join(tmp, "world.nc")
    ds.to_netcdf(p)
    if via == "file":
        r = xarray.open_dataset(p)                       # lazily indexed backend arrays
    elif via == "dask":
        r = xarray.open_dataset(p, chunks={})            # dask arrays, one chunk per variable
    elif via == "emsopen":
        import emsarray
        r = emsarray.open_dataset(p)
    else:
        raise ValueError(via)
    return Held(r, tmp)


_open: list[Held] = []


def hold_ds(w: dict, ds: xarray.Dataset) -> xarray.Dataset:
    """hold() for drivers that only want the dataset; released by the `closing` wrapper of their execute()"""
    h = hold(w, ds)
    _open.append(h)
    return h.ds


def closing(fn):
    import functools

    @functools.wraps(fn)
    def wrapper(case):
        try:
            return fn(case)
        finally:
            while _open:
                _open.pop().close()
    return wrapper
