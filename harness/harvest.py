"""Run the repository's own test suite under harness/harvest_plugin.py and hand the recorded events to the trace
specifications (the repository's tests exercise paths and inputs the generated drivers do not; their assertions are
the repository's, the verdict on the recorded events is TLC's)."""
from __future__ import annotations

import json
import os
import pathlib
import shutil
import subprocess
import sys

from . import tlc

REPO = pathlib.Path(os.environ.get("EMSARRAY_REPO", "/repo"))
_cache: dict[int, pathlib.Path] = {}


def run_suite() -> pathlib.Path:
    """one pytest run of /repo's tests per process; returns the directory holding <target>.ndjson and summary.json"""
    pid = os.getpid()
    if pid in _cache and _cache[pid].exists():
        return _cache[pid]
    out = tlc.WORK / "harvest" / f"run-{pid}"
    if out.exists():
        shutil.rmtree(out, ignore_errors=True)
    out.mkdir(parents=True, exist_ok=True)
    env = dict(os.environ)
    env.update({"PYTHONPATH": str(tlc.VERIF) + os.pathsep + env.get("PYTHONPATH", ""), "EMSARRAY_VERIF_TRACE": str(out),
                "PYTHONHASHSEED": "0", "MPLBACKEND": "Agg", "DASK_SCHEDULER": "synchronous"})
    p = subprocess.run([sys.executable, "-m", "pytest", "-q", "-p", "no:cacheprovider", "-p", "harness.harvest_plugin",
                        "--timeout=900", "--continue-on-collection-errors", "tests"],
                       cwd=str(REPO), env=env, stdout=subprocess.PIPE, stderr=subprocess.STDOUT, text=True, timeout=3000)
    if not (out / "summary.json").exists():
        raise tlc.MachineryError("the repository's test suite did not run under the harvest plugin:\n" + p.stdout[-2000:])
    _cache[pid] = out
    return out


def records(target: str) -> list[dict]:
    d = run_suite()
    f = d / f"{target}.ndjson"
    if not f.exists():
        return []
    return [json.loads(line) for line in f.read_text().splitlines() if line.strip()]


def summary() -> dict:
    return json.loads((run_suite() / "summary.json").read_text())


def cleanup() -> None:
    d = _cache.pop(os.getpid(), None)
    if d:
        shutil.rmtree(d, ignore_errors=True)


def make_cases(target: str) -> list[dict]:
    out = []
    for r in records(target):
        out.append({"src": "repo-tests", "test": r.get("test", ""), "record": r})
    return out


def execute(case: dict) -> dict:
    """the execution already happened inside the repository's test run: the record is what was observed there"""
    r = dict(case["record"])
    r["tid"] = case["tid"]
    r["src"] = "repo-tests"
    return r
