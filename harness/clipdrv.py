"""Shared driver for clipping (C08 values, C09 geometry / topology)."""
from __future__ import annotations

import os
import random
import shutil

import numpy
import xarray

from . import cellsdrv as CD, geoworlds as GW, meshtabs, tlc, worlds as W
from .project import BADINT, outcome, polygon_vertices
from .worlds import MISSING

OFFSET2 = 10000


def add_clip_vars(w: dict, rng: random.Random) -> None:
    """tagged variables of every fill kind on every grid kind, spatial dimensions in shuffled positions"""
    CD.add_data_vars(w, rng, rich=True, ksize=w.get("ksize"))
    specs = w["vars"]
    base = max(v["base"] for v in specs) + 500
    g = ["@0", "@1"] if len(W.kind_shape(w, "face")) == 2 else ["@0"]

    def add(name, kind, dims, dtype, **kw):
        nonlocal base
        v = {"name": name, "kind": kind, "dims": dims, "dtype": dtype, "base": base}
        v.update(kw)
        _, shape = W.var_dims_shape(w, v)
        n = int(numpy.prod(shape)) if shape else 1
        if kw.get("fill") is not None:
            v["missing"] = sorted(rng.sample(range(n), max(1, n // 6)))
        specs.append(v)
        base += n + 11
    d = ["k"] + g
    rng.shuffle(d)
    add("ifill", "face", d, "i4", fill=-99, fillattr="_FillValue")
    add("imiss", "face", g + ["t"], "i2", fill=-7, fillattr="missing_value")
    add("izero", "face", list(g), "i2", fill=0, fillattr="_FillValue")        # zero is a legitimate fill value
    add("iplain", "face", list(reversed(g)), "i8")
    add("lag", "face", list(g) + ["t"], "m8[h]")        # a duration (timedelta64): blanked with NaT
    for kind in W.kinds_of(w):
        if kind != "face":
            gk = ["@0", "@1"] if len(W.kind_shape(w, kind)) == 2 else ["@0"]
            add("int_" + kind, kind, gk + ["t"], "i4")
            add("fil_" + kind, kind, ["k"] + gk, "i4", fill=-99, fillattr="_FillValue")
    for v in specs:
        v.setdefault("attrs", {})
        v["attrs"] = dict(v["attrs"], long_name="variable " + v["name"])


def fillkind(v: dict) -> str:
    if v.get("dtype", "f8").startswith("f") or v.get("dtype", "f8").startswith("m8"):
        return "float"
    return "attr" if v.get("fill") is not None else "none"


def tlc_world(w: dict, ds) -> dict:
    tw = CD.tlc_world(w, ds)
    for tv, v in zip(tw["vars"], w["vars"]):
        tv["fillkind"] = fillkind(v)
    tw["coords_as"] = w.get("coords_as", "coords")
    if w["conv"] == "ugrid":
        m = w["mesh"]
        maxn = max(len(f) for f in m["faces"])
        tw["mesh"].update({"fn": meshtabs.padded(m["faces"], maxn), "en": m["edges"],
                           "fe": meshtabs.padded(m["face_edge"], maxn), "ef": meshtabs.padded(m["edge_face"], 2),
                           "ff": meshtabs.padded(m["face_face"], maxn)})
        tw["supplied"] = list(w["enc"].get("supplied", []))
        tw["base"] = w["enc"].get("base", 0)
    else:
        tw["supplied"] = []
        tw["base"] = 0
    tw["convclass"] = {"cf1d": "CFGrid1D", "cf2d": "CFGrid2D", "shoc_simple": "ShocSimple",
                       "shoc_standard": "ShocStandard", "arakawa": "ArakawaC", "ugrid": "UGrid"}[w["conv"]]
    return tw


def clip_worlds(tier: str, seed: int) -> list[dict]:
    rng = random.Random(seed * 31 + 8)
    out = []
    quick = tier == "quick"
    S = GW.structured_world
    structured = [
        S("cf1d", 3, 4, bounds=True), S("cf1d", 4, 3, bounds=False, nonuniform=True),
        S("cf1d", 3, 3, bounds=True, coords_as="plain", descending=(False, True)),
        S("cf2d", 3, 4, shape="skew", bounds=True), S("cf2d", 3, 3, shape="rect", bounds=False),
        S("cf2d", 4, 3, shape="skew2", bounds=True, coords_as="plain", holes=[(0, 0)]),
        S("cf2d", 3, 3, shape="rect", bounds=False, holes=[(1, 0), (1, 2)]),      # a cell flanked by cells without coordinates
        S("shoc_simple", 3, 3, shape="skew", bounds=True), S("shoc_simple", 3, 4, shape="rect", bounds=True, coords_as="plain"),
        S("shoc_standard", 3, 3, shape="skew"), S("shoc_standard", 3, 4, shape="rect", holes=[(0, 3)]),
        S("shoc_standard", 2, 3, shape="skew2", coords_as="plain"),
        S("arakawa", 3, 3, shape="skew"), S("arakawa", 2, 4, shape="rect", coords_as="plain"),
    ]
    if not quick:
        for _ in range(12):
            conv = rng.choice(W.STRUCTURED)
            ny, nx = rng.randint(2, 5), rng.randint(2, 5)
            kw = dict(coords_as=rng.choice(["coords", "plain"]))
            if conv == "cf1d":
                kw.update(bounds=rng.random() < .6, nonuniform=rng.random() < .5)
            else:
                kw.update(shape=rng.choice(["rect", "skew", "skew2"]))
                if conv in ("cf2d", "shoc_simple"):
                    kw.update(bounds=rng.random() < .7)
            structured.append(S(conv, ny, nx, **kw))
    out += structured
    # meshes: every subset of the optional connectivity tables, both bases, three fill representations
    subsets = [[], ["en"], ["ff"], ["en", "fe"], ["en", "ef"], ["en", "fe", "ef", "ff"], ["fe"], ["ef", "ff"],
               ["en", "ff"], ["en", "fe", "ff"], ["en", "ef", "ff"], ["fe", "ef"], ["en", "fe", "ef"], ["fe", "ff"],
               ["ef"], ["fe", "ef", "ff"]]
    fam = [[["Q", "A", "Q"], ["B", "Q", "N"]], [["A", "B"], ["B", "Q"]], [["H", "h", "Q"], ["Q", "A", "B"]]]
    n_mesh = 8 if quick else 32
    for k in range(n_mesh):
        sup = subsets[k % len(subsets)]
        if k < len(fam) * 2:
            m = W.mesh_from_squares(fam[k % len(fam)], shape=["skew", "rect"][k % 2])
        else:
            m = W.random_mesh(rng, rng.randint(3, 6), rng.randint(2, 5), shape=rng.choice(["rect", "skew"]))
        m = meshtabs.supplied_tables(m, rng)
        # (face-face connectivity on a mesh WITHOUT any edge dimension must exist too: FVCOM-style output)
        has_edge = bool(set(sup) & {"en", "ef", "fe"}) or (sup != ["ff"] and rng.random() < .3)
        # data on edges (and the clauses about edge tables) need a defined edge numbering: edge-node supplied
        edge_defined = "en" in sup
        enc = {"base": k % 2, "fill": ["intfill", "nan", "none"][k % 3], "supplied": sup,
               "edge_dim": ("implied" if set(sup) & {"en", "ef"} and rng.random() < .5 else "declared") if has_edge else "absent",
               "coords_as": "plain" if k % 4 else "coords"}
        if enc["fill"] == "intfill" and k % 2:
            enc["fillvalue"] = 0 if enc["base"] == 1 else -1
        w = W.counts_world("ugrid", nface=len(m["faces"]), nnode=len(m["nodes"]),
                           nedge=len(m["edges"]) if (has_edge and edge_defined) else -1)
        w["mesh"] = m
        w["enc"] = enc
        out.append(w)
    # meshes whose connectivity tables are stored transposed ((Two, edge), (max, face)): edge_dimension / face_dimension declared
    for sup in (["en", "ef"], ["en", "fe", "ef", "ff"]):
        m = meshtabs.supplied_tables(W.mesh_from_squares(fam[0], shape="skew"), rng)
        w = W.counts_world("ugrid", nface=len(m["faces"]), nnode=len(m["nodes"]), nedge=len(m["edges"]))
        w["mesh"] = m
        w["enc"] = {"base": 1, "fill": "intfill", "supplied": sup, "edge_dim": "declared", "coords_as": "plain", "transposed": True}
        out.append(w)
    # round 13: a mesh whose layer dimension is exactly as long as its face dimension (and one as long as its node dimension):
    # an axis found by its LENGTH instead of its name is the wrong one wherever the layer dimension comes first
    for which in ("nface", "nnode"):
        m = meshtabs.supplied_tables(W.mesh_from_squares(fam[1], shape="skew"), rng)
        w = W.counts_world("ugrid", nface=len(m["faces"]), nnode=len(m["nodes"]), nedge=len(m["edges"]))
        w["mesh"] = m
        w["enc"] = {"base": 0, "fill": "intfill", "supplied": ["en"], "edge_dim": "declared", "coords_as": "coords"}
        w["ksize"] = w[which]
        out.append(w)
    vias = ["memory", "file", "memory", "emsopen", "dask", "memory"]       # how the dataset being clipped is held (viafile.hold)
    for k, w in enumerate(out):
        add_clip_vars(w, rng)
        w["via"] = vias[k % len(vias)]
        if w["conv"] in ("cf1d", "cf2d", "shoc_simple") and "xb" in w.get("geom", {}) and k % 2 == 0:
            w["bounds_as_coords"] = True      # bounds held as coordinate variables (set_coords / decode_coords="all")
    return out


def histories(w: dict, rng: random.Random, tier: str) -> list[dict]:
    geoms = GW.clip_geometries(w, rng)
    pick = [g for g in geoms if g["label"] in ("cell-ring", "inside-cell", "line", "multi", "cover-all", "border-hug")]
    rng.shuffle(pick)
    pick = pick[: (2 if tier == "quick" else 4)]
    ev = []
    for g in pick:
        b = rng.choice([0, 1, 2])
        ev.append({"a": "MakeMask", "geom": g["parts"], "label": g["label"], "buffer": b})
        ev.append({"a": "Apply", "obj": 1, "off": 0, "via": "direct"})
        ev.append({"a": "SaveReopen", "off": 0})
        ev.append({"a": "ReloadMask"})
        ev.append({"a": "Apply", "obj": 2, "off": OFFSET2, "via": "reloaded"})
        if rng.random() < .5:
            ev.append({"a": "Apply", "obj": 1, "off": 0, "via": "reloaded"})
    # a scattered selection: points inside a few cells chosen at random (rarely contiguous, often leaving a cell out whose
    # nodes / edges all belong to selected neighbours)
    inner = GW.inner_points(w)
    if len(inner) >= 3:
        for _ in range(1 if tier == "quick" else 3):
            chosen = rng.sample(inner, rng.randint(2, max(2, min(len(inner) - 1, 4))))
            ev.append({"a": "MakeMask", "geom": [{"t": "pt", "pts": [p]} for p in chosen], "label": "scatter", "buffer": 0})
            ev.append({"a": "Apply", "obj": 1, "off": 0, "via": "direct"})
    if w["conv"] == "ugrid" and len(inner) >= 2:
        # a multi-part geometry two of whose parts touch the SAME face (a station listed twice), no buffer
        ev.append({"a": "MakeMask", "geom": [{"t": "pt", "pts": [p]} for p in (inner[0], inner[-1], inner[0])], "label": "scatter", "buffer": 0})
        ev.append({"a": "Apply", "obj": 1, "off": 0, "via": "direct"})
    g = rng.choice(geoms[:6])
    b = rng.choice([0, 1])
    ev.append({"a": "MakeMask", "geom": g["parts"], "label": g["label"], "buffer": b})
    ev.append({"a": "Clip", "geom": g["parts"], "label": g["label"], "buffer": b, "obj": 1, "off": 0, "via": "clip"})
    names = [v["name"] for v in w["vars"]]
    ev.append({"a": "SelectVariables", "names": sorted(rng.sample(names, min(2, len(names))))})
    ev.append({"a": "SelectVariables", "names": []})
    return ev


# ------------------------------------------------------------------ execution
def bind_like(w, ds):
    """the convention object for a dataset derived from world w: detected, except hand-built plain Arakawa C"""
    if w["conv"] == "arakawa":
        from emsarray.conventions.arakawa_c import ArakawaC
        return ArakawaC(ds, coordinate_names=W.arakawa_coord_names(w)), "ArakawaC"
    conv = ds.ems
    return conv, type(conv).__name__


def proj_var_values(v_spec, da) -> list[int]:
    vals = numpy.asarray(da.values)
    out = CD.proj_values(vals)
    fill = v_spec.get("fill")
    if fill is not None:
        out = [MISSING if x == fill else x for x in out]
    return out


def attr_list(attrs, encoding=None) -> list:
    """attributes as they would be written: a fill value held in the encoding counts as the attribute it becomes"""
    d = {str(k): str(v) for k, v in attrs.items()}
    for k in ("_FillValue", "missing_value"):
        if encoding and encoding.get(k) is not None and k not in d:
            v = encoding[k]
            fv = float(v)
            d[k] = "nan" if fv != fv else (str(int(fv)) if fv == int(fv) else str(v))
    return sorted([k, v] for k, v in d.items())


def proj_side(w, ds) -> dict:
    """coords / attrs of a dataset that must pass through clipping unchanged"""
    geom_names = set()
    coords = []
    for name in ds.coords:
        c = ds[name]
        if any(d in W_all_grid_dims(w) for d in c.dims):
            continue
        if c.dtype.kind == "M":
            vals = (c.values.astype("datetime64[h]").astype("int64")).reshape(-1).tolist()
        elif c.dtype.kind in "fiu":
            vals = CD.proj_values(c.values)
        else:
            continue
        coords.append({"name": str(name), "dims": [str(d) for d in c.dims], "data": [int(x) for x in vals]})
    names = [v["name"] for v in w["vars"]]
    return {"coords": sorted(coords, key=lambda c: c["name"]), "attrs": attr_list(ds.attrs),
            "varattrs": [[n, attr_list(ds[n].attrs, ds[n].encoding)] for n in names if n in ds.variables]}


def W_all_grid_dims(w) -> set:
    s = set()
    for k in W.kinds_of(w):
        s.update(W.kind_dims(w, k))
    return s


def proj_result(w, ds) -> dict:
    conv, cname = bind_like(w, ds)
    specs = {v["name"]: v for v in w["vars"]}
    vars_ = []
    for n in ds.data_vars:
        if n in specs:
            a = CD.proj_array(n, ds[n])
            a["data"] = proj_var_values(specs[n], ds[n])
            vars_.append(a)
    out = {"conv": cname, "vars": vars_, "polys": outcome(lambda: [polygon_vertices(p) for p in conv.polygons])}
    out.update(proj_side(w, ds))
    if w["conv"] == "ugrid":
        topo = conv.topology
        tabs = {}
        for k, attr in (("fn", "face_node_array"), ("en", "edge_node_array"), ("fe", "face_edge_array"),
                        ("ef", "edge_face_array"), ("ff", "face_face_array")):
            tabs[k] = outcome(lambda: numpy.ma.filled(numpy.ma.asarray(getattr(topo, attr)).astype(int), -1).tolist())
        out["tables"] = tabs
        out["has"] = {"en": bool(topo.has_valid_edge_node_connectivity), "fe": bool(topo.has_valid_face_edge_connectivity),
                      "ef": bool(topo.has_valid_edge_face_connectivity), "ff": bool(topo.has_valid_face_face_connectivity)}
    return out


CONN = {"fn": "Mesh2_face_nodes", "en": "Mesh2_edge_nodes", "fe": "Mesh2_face_edges", "ef": "Mesh2_edge_faces",
        "ff": "Mesh2_face_links"}


def conn_meta_dataset(ds) -> list:
    """index base, integer-ness and dimension order of every connectivity variable (as xarray sees an in-memory input)"""
    out = []
    for k, n in CONN.items():
        if n in ds.variables:
            v = ds[n]
            dt = v.encoding.get("dtype", v.dtype)
            out.append([k, int(v.attrs.get("start_index", 0)), "int" if numpy.dtype(dt).kind in "iu" else "float",
                        [str(d) for d in v.dims]])
    return out


def conn_meta_file(path) -> list:
    import netCDF4
    out = []
    with netCDF4.Dataset(path) as nc:
        for k, n in CONN.items():
            if n in nc.variables:
                v = nc.variables[n]
                si = int(v.getncattr("start_index")) if "start_index" in v.ncattrs() else 0
                out.append([k, si, "int" if v.dtype.kind in "iu" else "float", [str(d) for d in v.dimensions]])
    return out


def proj_mask(w, mask) -> dict:
    from .props.c07 import proj_mask as pm
    return pm(w, mask)


def execute(case: dict) -> dict:
    w = case["world"]
    work = tlc.WORK / "clip" / f"{os.getpid()}-{case['tid']}"
    if work.exists():
        shutil.rmtree(work)
    work.mkdir(parents=True)
    try:
        from . import viafile
        held = viafile.hold(w, W.build(w))
        ds1 = held.ds
        before1 = CD.snapshot(ds1)
        w2 = dict(w)
        w2["vars"] = [dict(v, base=v["base"] + OFFSET2) for v in w["vars"]]
        ds2 = W.build(w2)
        conv = {1: W.bind(w, ds1), 2: W.bind(w2, ds2)}
        dss = {1: ds1, 2: ds2}
        rec = {"tid": case["tid"], "src": case["src"], "w": tlc_world(w, ds1), "events": []}
        state = {"mask": None, "last": None}
        for k, e in enumerate(case["events"]):
            e = dict(e)
            a = e["a"]
            if a == "MakeMask":
                def mk():
                    state["mask"] = conv[1].make_clip_mask(GW.to_shapely({"parts": e["geom"]}), buffer=e["buffer"])
                    return proj_mask(w, state["mask"])
                e["obs"] = outcome(mk)
            elif a == "ReloadMask":
                def rl():
                    p = work / f"mask{k}.nc"
                    state["mask"].to_netcdf(p)
                    state["mask"] = xarray.open_dataset(p).load()
                    return proj_mask(w, state["mask"])
                e["obs"] = outcome(rl)
            elif a in ("Apply", "Clip"):
                def ap():
                    # (every second application re-uses one work directory: the caller manages it, and nothing says it must be
                    # a new one each time - what an earlier clip left there must not leak into this one)
                    d = work / (f"work{k}" if k % 2 else "work-shared")
                    d.mkdir(exist_ok=True)
                    c = conv[e["obj"]]
                    if a == "Apply":
                        r = c.apply_clip_mask(state["mask"], d)
                    else:
                        r = c.clip(GW.to_shapely({"parts": e["geom"]}), d, buffer=e["buffer"])
                    r = r.load()
                    r.close()
                    state["last"] = r
                    return proj_result(w, r)
                e["obs"] = outcome(ap)
                side = proj_side(w, dss[e["obj"]])
                e["incoords"], e["inattrs"], e["invarattrs"] = side["coords"], side["attrs"], side["varattrs"]
            elif a == "SaveReopen":
                def sr():
                    p = work / f"saved{k}.nc"
                    c, _ = bind_like(w, state["last"])
                    c.to_netcdf(p)
                    r = xarray.open_dataset(p).load()
                    out = proj_result(w, r)
                    out["meta"] = conn_meta_file(p) if w["conv"] == "ugrid" else []
                    return out
                e["obs"] = outcome(sr)
                e["inmeta"] = conn_meta_dataset(ds1) if w["conv"] == "ugrid" else []
            elif a == "SelectVariables":
                def sv():
                    r = conv[1].select_variables(e["names"])
                    c, cname = bind_like(w, r)
                    return {"conv": cname, "polys": [polygon_vertices(p) for p in c.polygons],
                            "names": sorted(str(n) for n in r.variables)}
                e["obs"] = outcome(sv)
            rec["events"].append(e)
        rec["input"] = {"before": before1, "after": CD.snapshot(ds1)}
        return rec
    finally:
        try:
            held.close()
        except NameError:
            pass
        shutil.rmtree(work, ignore_errors=True)


def cases(tier: str, seed: int) -> list[dict]:
    rng = random.Random(seed + 89)
    return [{"src": "gen", "world": w, "events": histories(w, rng, tier)} for w in clip_worlds(tier, seed)]
