"""C17  Saving with the EMS fixes preserves data, geometry and time instants."""
from __future__ import annotations

import itertools
import os
import random
import tempfile

import numpy
import xarray

from .. import cellsdrv as CD, clipdrv, geoworlds as GW, tlc, worlds as W
from ..project import outcome, polygon_vertices

ID = "C17"
TITLE = "Saving with the EMS fixes preserves data, geometry and time instants"
MC = {"quick": [("MC_C17", "MC_C17.cfg", 8)], "thorough": [("MC_C17", "MC_C17.cfg", 16)]}
TRACE = ("Trace_C17", "Trace_C17.cfg")
THOROUGH_EXTRA_SEEDS = 2
# the repository\'s own tests, recorded by harness/harvest_plugin.py, judged by the same trace specification
ALSO = {"quick": ["harness.props.c17d"], "thorough": ["harness.props.hv17", "harness.props.c17d"]}
REQUIRED = ["Format", "SaveOpen", "scalar-time", "coarse-integer-axis", "period-milliseconds", "period-microseconds", "period-seconds", "period-minutes", "period-hours", "period-days", "negative-offset",
            "fractional-offset", "single-digit-hour-offset", "zero-offset", "utc-date-differs", "style-iso", "style-isoT",
            "style-short", "style-loose", "style-zulu", "style-naive",
            "cf1d", "cf2d", "shoc_simple", "shoc_standard", "arakawa", "ugrid"]
RULE = ("format_time_units_for_ems on unit strings for every UTC offset from -12:00 to +14:00 in 15 minute steps x periods "
        "{seconds, minutes, hours, days} x epochs on month / year / leap-day boundaries x times of day around midnight x writing "
        "styles (ISO with 'T' or space, with or without seconds, offset as +HH:MM / +HH / Z / none, unpadded date); "
        "Convention.to_netcdf + reopen on datasets of every convention with such time encodings; "
        "non-trivial = a non-zero offset")
ASSUMPTIONS = ["offsets are written with two hour digits (+05:00, -09:30, +10, Z) as xarray and CF tools write them; the "
               "reference instant is read by the specification's own ISO-8601 reading, not by cftime",
               "netCDF4 / HDF5 encode and decode faithfully; files are inspected after re-reading"]
EXHAUSTIVE = {"quick": False, "thorough": False}

DATES = [(1990, 1, 1), (1999, 12, 31), (2000, 2, 29), (2000, 3, 1), (2021, 11, 16), (1970, 1, 1), (2024, 2, 28), (2100, 2, 28)]
TIMES = [(0, 0), (0, 15), (11, 59), (12, 0), (23, 45)]


def write_units(period, civil, sec, off, style) -> str:
    y, m, d, hh, mm = civil
    sign = "-" if off < 0 else "+"
    a = abs(off)
    oh, om = divmod(a, 60)
    if style == "iso":
        return f"{period} since {y:04d}-{m:02d}-{d:02d} {hh:02d}:{mm:02d}:{sec:02d} {sign}{oh:02d}:{om:02d}"
    if style == "isoT":
        return f"{period} since {y:04d}-{m:02d}-{d:02d}T{hh:02d}:{mm:02d}:{sec:02d}{sign}{oh:02d}:{om:02d}"
    if style == "short":      # no seconds (sec must be 0)
        return f"{period} since {y:04d}-{m:02d}-{d:02d} {hh:02d}:{mm:02d} {sign}{oh:02d}:{om:02d}"
    if style == "loose":      # unpadded date and hour, hour-only offset (minutes must be 0), as in the repository's own test
        return f"{period} since {y}-{m}-{d} {hh}:{mm:02d}:{sec:02d} {sign}{oh:02d}"
    if style == "zulu":       # off must be 0
        return f"{period} since {y:04d}-{m:02d}-{d:02d}T{hh:02d}:{mm:02d}:{sec:02d}Z"
    if style == "naive":      # off must be 0
        return f"{period} since {y:04d}-{m:02d}-{d:02d} {hh:02d}:{mm:02d}:{sec:02d}"
    raise ValueError(style)


def styles_for(sec, off):
    s = ["iso", "isoT"]
    if sec == 0:
        s.append("short")
    if off % 60 == 0:
        s.append("loose")
    if off == 0:
        s += ["zulu", "naive"]
    return s


def cases(tier: str, seed: int) -> list[dict]:
    rng = random.Random(seed + 17)
    out = []
    offsets = list(range(-720, 841, 15))
    ev = []
    for off in offsets:
        combos = list(itertools.product(["seconds", "minutes", "hours", "days"], DATES, TIMES))
        for kk, (period, date, tm) in enumerate(rng.sample(combos, 4) if tier == "quick" else rng.sample(combos, 24)):
            if (offsets.index(off) + kk) % 3 == 0:
                period = ["milliseconds", "microseconds"][((offsets.index(off) + kk) // 3) % 2]      # sub-second periods
            sec = rng.choice([0, 0, 30])
            for style in styles_for(sec, off):
                ev.append({"a": "Format", "period": period, "civil": list(date) + list(tm), "sec": sec, "off": off, "style": style})
    for k in range(0, len(ev), 200):
        out.append({"src": "gen", "world": None, "events": ev[k:k + 200]})
    # full save / reopen round trips
    worlds = []
    for conv in W.ALL_CONVS:
        for rep in range(1 if tier == "quick" else 4):
            if conv == "ugrid":
                w = GW.mesh_world(W.mesh_from_squares([["Q", "A"], ["B", "N"]]), enc=[{"base": 1, "fill": "intfill", "fillvalue": -1}, {"base": 0, "fill": "nan"}, {"base": 1, "fill": "nan"},
                                       {"base": 0, "fill": "intfill"}][rep % 4], edges=rep % 2 == 1)
            elif conv == "cf1d":
                w = GW.structured_world(conv, 2, 3, bounds=rep % 2 == 0)
            elif conv == "cf2d" and rep % 2 == 0:
                w = GW.structured_world(conv, 3, 3, shape="rect", bounds=False, holes=[(1, 0), (1, 2)])     # a flanked cell
            else:
                w = GW.structured_world(conv, 2, 3, shape="skew", holes=[(0, 0)] if rep % 2 else None)
            CD.add_data_vars(w, rng, packed=True)
            off = rng.choice([600, 660, -300, 330, -570, 0, 480, -60])
            period = rng.choice(["days", "hours", "minutes", "seconds"])
            date = rng.choice(DATES); tm = rng.choice(TIMES)
            style = rng.choice(styles_for(0, off))
            worlds.append((w, {"a": "SaveOpen", "period": period, "civil": list(date) + list(tm), "sec": 0, "off": off, "style": style,
                               "onestep": -1}))
            if rep % 2 == 0:
                worlds.append((w, {"a": "SaveOpen", "period": period, "civil": list(date) + list(tm), "sec": 0, "off": off,
                                   "style": style, "onestep": rng.randrange(2)}))
                worlds.append((w, {"a": "SaveOpen", "period": rng.choice(["hours", "days"]), "civil": list(date) + list(tm), "sec": 0,
                                   "off": off, "style": style, "onestep": -1, "coarse": True}))
    # a time axis counted in milliseconds
    for conv in W.ALL_CONVS:
        if conv == "ugrid":
            w = GW.mesh_world(W.mesh_from_squares([["Q", "A"]]), enc={"base": 0, "fill": "intfill"})
        elif conv == "cf1d":
            w = GW.structured_world(conv, 2, 2, bounds=True)
        else:
            w = GW.structured_world(conv, 2, 2, shape="skew")
        CD.add_data_vars(w, rng, packed=False)
        off = rng.choice([600, -300, 330, 0])
        worlds.append((w, {"a": "SaveOpen", "period": "milliseconds", "civil": list(rng.choice(DATES)) + list(rng.choice(TIMES)), "sec": 0,
                           "off": off, "style": rng.choice(styles_for(0, off)), "onestep": -1}))
    vias = ["memory", "file", "dask", "memory", "emsopen"]      # how the dataset that is saved is held (viafile.hold)
    for k, (w, e) in enumerate(worlds):
        # (decoy: a look-alike dataset, and for SHOC standard a hand-made override of the coordinate names, were handled
        # earlier in the same process - see worlds.bind)
        out.append({"src": "gen", "world": dict(w, via=vias[k % len(vias)], **({"decoy": True} if k % 2 == 0 else {})), "events": [e]})
    return out


def nontrivial(case: dict) -> bool:
    return any(e["off"] != 0 for e in case["events"])


NOWORLD = {"conv": "none", "ny": 0, "nx": 0, "nface": 0, "nnode": 0, "nedge": -1, "geom": {"none": 0}, "mesh": {"none": 0}, "vars": []}


def fill_attrs_dataset(ds) -> list[str]:
    return sorted(str(n) for n in ds.variables if "_FillValue" in ds[n].attrs or ds[n].encoding.get("_FillValue") is not None)


def execute(case: dict) -> dict:
    from emsarray import utils
    w = case["world"]
    if w is None:
        rec = {"tid": case["tid"], "src": case["src"], "w": NOWORLD, "events": []}
        for e in case["events"]:
            e = dict(e)
            s = write_units(e["period"], e["civil"], e["sec"], e["off"], e["style"])
            e["input"] = s
            e["obs"] = outcome(lambda: [ord(c) for c in utils.format_time_units_for_ems(s)])
            rec["events"].append(e)
        return rec
    e = dict(case["events"][0])
    units = write_units(e["period"], e["civil"], e["sec"], e["off"], e["style"])
    w = dict(w)
    w["extras"] = [dict(x) for x in w["extras"]]
    tdim = w["extras"][0]
    tdim["coord"] = dict(tdim["coord"], encoding={"units": units, "calendar": "proleptic_gregorian"})
    if e.get("coarse"):
        # half-hour records on an integer axis counted in the requested (coarser) unit: xarray has to write a finer unit than
        # the encoding asks for, and the units attribute of the FILE is what has to be rewritten
        tdim["coord"]["step_minutes"] = 30
        tdim["coord"]["encoding"]["dtype"] = "int32"
    from .. import viafile
    ds = viafile.hold_ds(w, W.build(w))
    _before = CD.snapshot(ds)
    _ds_in = ds
    e.setdefault("onestep", -1)
    if e["onestep"] >= 0:
        # one time step selected first: the time coordinate becomes a scalar (dimensionless) coordinate
        ds = ds.isel({tdim["name"]: e["onestep"]})
    conv = W.bind(w, ds)
    tname = tdim["coord"]["name"]
    intimes = [int(v) for v in numpy.atleast_1d(ds[tname].values.astype("datetime64[m]").astype("int64")).tolist()]
    rec = {"tid": case["tid"], "src": case["src"], "w": CD.tlc_world(w, ds), "events": []}
    e["input"] = units
    e["intimes"] = intimes
    e["inconv"] = type(conv).__name__
    e["infillattrs"] = fill_attrs_dataset(ds)
    e["srcpolys"] = outcome(lambda: [polygon_vertices(p_) for p_ in conv.polygons])      # the dataset that is being saved

    def run():
        import netCDF4
        with tempfile.TemporaryDirectory(dir=str(tlc.WORK)) as td:
            p = os.path.join(td, "out.nc")
            conv.to_netcdf(p)
            with netCDF4.Dataset(p) as nc:
                raw = str(nc.variables[tname].getncattr("units"))
                fills = sorted(n for n, v in nc.variables.items() if "_FillValue" in v.ncattrs())
            r = xarray.open_dataset(p).load()
            r.close()
        c2, cname = clipdrv.bind_like(w, r)
        specs = {v["name"]: v for v in w["vars"]}
        return {"units": [ord(ch) for ch in raw], "fillattrs": fills,
                "times": [int(v) for v in numpy.atleast_1d(r[tname].values.astype("datetime64[m]").astype("int64")).tolist()],
                "conv": cname, "polys": [polygon_vertices(p_) for p_ in c2.polygons],
                "vars": [CD.proj_array(n, r[n]) for n in r.data_vars if n in specs]}
    e["obs"] = outcome(run)
    rec["events"].append(e)
    rec["input"] = {"before": _before, "after": CD.snapshot(_ds_in)}
    return rec


from .. import viafile as _viafile  # noqa: E402
execute = _viafile.closing(execute)
