"""C19  Plot artists pair every value with its own cell."""
from __future__ import annotations

import random

from .. import cellsdrv as CD, geoworlds as GW, worlds as W

ID = "C19"
TITLE = "Plot artists pair every value with its own cell"
MC = {"quick": [("MC_Export", "MC_Artists.cfg", 4)], "thorough": [("MC_Export", "MC_Artists_thorough.cfg", 16)]}
TRACE = ("Trace_Cells", "Trace_Cells.cfg")
REPEAT_EVENTS = 4      # see core.check
THOROUGH_EXTRA_SEEDS = 2
REQUIRED = ["after-mutation", "held-memory", "held-file", "held-dask", "held-emsopen", "PolyCollection", "Quiver", "holes", "refuse-dims", "refuse-both", "clim-override", "transform-override",
            "array-override", "mode-name", "mode-array", "mode-anon", "quiver-empty",
            "cf1d", "cf2d", "shoc_simple", "shoc_standard", "arakawa", "ugrid"]
RULE = ("one case = one dataset with lattice geometry and holes on which make_poly_collection (no data; scalar by name, as "
        "the dataset's DataArray, as an anonymous DataArray; dimensions in either order; clim / array / transform overrides; "
        "leftover dimensions; data_array together with array=) and make_quiver (pairs by name / as arrays; no components; "
        "leftover dimensions) are recorded from the matplotlib artists (paths, array, clim, XY, U, V); "
        "non-trivial = has holes or NaN values")
ASSUMPTIONS = ["rendering (pixels) is not claimed; the property is about the artists' contents",
               "Agg backend; no coastlines are drawn"]
EXHAUSTIVE = {"quick": False, "thorough": False}
PARALLEL = True


def cases(tier: str, seed: int) -> list[dict]:
    rng = random.Random(seed + 19)
    out = []
    base = {"var": "", "mode": "name", "clim": [], "array": [], "transform": False, "refuse": ""}
    worlds = GW.geo_worlds(tier, seed, big=False)
    # grids written with longitudes 0..360 that cross the antimeridian (centres on both sides of 180)
    for conv in ("cf1d", "cf2d", "ugrid"):
        if conv == "ugrid":
            wa = GW.mesh_world(W.mesh_from_squares([["Q", "A"], ["B", "Q"]], shape="rect"), enc={"base": 0, "fill": "intfill"})
        else:
            wa = GW.structured_world(conv, 2, 3, **({"bounds": True} if conv == "cf1d" else {"shape": "rect", "bounds": True}))
        worlds.append(GW.shifted(wa, 64 * 179, 0))
        worlds[-1]["via"] = "memory"
    for conv in ("shoc_standard", "arakawa"):
        wt = GW.structured_world(conv, 2, 3, shape="skew")
        wt["x_transposed"] = ["face"]
        wt["via"] = "memory"
        worlds.append(wt)
    for w in worlds:
        CD.add_data_vars(w, rng, rich=False, odd_floats=True)
        nvalid_unknown = None
        ev = [dict(base, a="PolyCollection"),
              dict(base, a="PolyCollection", var="plotv", mode="name"),
              dict(base, a="PolyCollection", var="flag", mode="array"),
              dict(base, a="PolyCollection", var="plotv", mode="anon"),
              dict(base, a="PolyCollection", var="plotv", mode="name", api="make_patch_collection"),     # the older public name
              dict(base, a="PolyCollection", var="pv", mode="name", clim=[-5, 123456]),
              dict(base, a="PolyCollection", var="plotv", mode="name", transform=True),
              dict(base, a="PolyCollection", var="single", mode="name"),
              dict(base, a="PolyCollection", var="bigend", mode="array"),
              dict(base, a="PolyCollection", var="pv", mode="anon"),
              dict(base, a="PolyCollection", var="plotv", mode="relabelled"),
              dict(base, a="PolyCollection", var="temp", mode="name", refuse="dims"),
              dict(base, a="PolyCollection", var="eta", mode="array", refuse="dims"),
              dict(base, a="PolyCollection", var="plotv", mode="name", array=[1, 2, 3], refuse="both"),
              {"a": "Quiver", "u": "pu", "v": "pv", "mode": "name", "refuse": ""},
              {"a": "Quiver", "u": "pu", "v": "pv", "mode": "array", "refuse": ""},
              {"a": "Quiver", "u": "", "v": "", "mode": "name", "refuse": ""},
              {"a": "Quiver", "u": "temp", "v": "temp", "mode": "name", "refuse": "dims"},
              # the variables are replaced in place on the same dataset object (unit conversion, say) and plotted again by
              # name, as an array, and as arrows
              {"a": "Mutate", "off": 1000, "total": 1000},
              dict(base, a="PolyCollection", var="plotv", mode="name"),
              dict(base, a="PolyCollection", var="single", mode="name"),
              dict(base, a="PolyCollection", var="flag", mode="array"),
              {"a": "Quiver", "u": "pu", "v": "pv", "mode": "name", "refuse": ""}]
        out.append({"src": "gen", "world": w, "events": ev})
    return out


def nontrivial(case: dict) -> bool:
    return True


def execute(case: dict) -> dict:
    # user-supplied array=: one value per valid cell; the number of valid cells is read from the built dataset's
    # own mask only to size the override (the override itself is arbitrary data)
    rec_case = dict(case)
    from .. import worlds as W
    w = case["world"]
    ds = W.build(w)
    conv = W.bind(w, ds)
    n = int(conv.mask.sum())
    ev = list(case["events"])
    ev.append({"a": "PolyCollection", "var": "", "mode": "name", "clim": [], "array": [7000 + k for k in range(n)],
               "transform": False, "refuse": ""})
    rec_case["events"] = ev
    return CD.execute_cells(rec_case)
