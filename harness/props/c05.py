"""C05  Index and point selection return the stored values, complete and in order."""
from __future__ import annotations

import random

from .. import cellsdrv as CD, geoworlds as GW, worlds as W

ID = "C05"
TITLE = "Index and point selection return the stored values, complete and in order"
MC = {"quick": [("MC_Cells", "MC_C05.cfg", 8)], "thorough": [("MC_Cells", "MC_C05_thorough.cfg", 16)]}
TRACE = ("Trace_Cells", "Trace_Cells.cfg")
THOROUGH_EXTRA_SEEDS = 2
REQUIRED = ["held-memory", "held-file", "held-dask", "held-emsopen", "SelectIndex", "SelectIndexes", "SelectPoints", "ExtractDF", "repeats", "only-first-missing", "only-last-missing", "policy-error", "policy-drop",
            "policy-fill", "points-error-raised", "default-dim", "default-dim-collision", "holes", "Mutate", "after-mutation",
            "cf1d", "cf2d", "shoc_simple", "shoc_standard", "arakawa", "ugrid",
            "kind-face", "kind-left", "kind-back", "kind-node", "kind-edge"]
RULE = ("one case = one dataset with tagged variables on every grid kind (float with NaN, int32, float32; grid "
        "dimensions in shuffled positions) on which select_index / select_indexes (lists with repeats, any order, every "
        "grid kind, custom and default dimension names including collisions with an existing 'index' dimension), "
        "select_points and extract_dataframe (lists mixing interior hits, boundary hits and misses, three policies) are "
        "recorded; non-trivial = list with a repeat, or a miss, or a non-face grid kind")
ASSUMPTIONS = [
    "point lists keep at least one hit (the all-miss 'drop' case is outside the stated quantifier)",
    "the position of the new request dimension among the other dimensions is left free",
]
EXHAUSTIVE = {"quick": False, "thorough": False}


def cases(tier: str, seed: int) -> list[dict]:
    rng = random.Random(seed + 5)
    out = []
    for w in GW.geo_worlds(tier, seed, big=False):
        CD.add_data_vars(w, rng, late=True)
        ev = []
        taken = {e["name"] for e in w["extras"]}

        def pick(names):
            # an explicitly supplied name that already is a dimension of the dataset is a caller error
            # (duplicate dimension), outside the quantifier; collisions are exercised through the default names
            return rng.choice([n for n in names if n not in taken])
        for kind in W.kinds_of(w):
            size = 1
            for s in W.kind_shape(w, kind):
                size *= s
            for _ in range(2 if tier == "quick" else 5):
                ns = [rng.randrange(size) for _ in range(rng.randint(1, 4))]
                if rng.random() < 0.5 and ns:
                    ns.append(ns[0])
                e = {"a": "SelectIndexes", "ns": ns, "kind": kind, "dim": pick(["req", "index", "cell", "point"])}
                if rng.random() < 0.35:
                    e = {"a": "SelectIndexes", "ns": ns, "kind": kind, "dim": "", "default_dim": True}
                ev.append(e)
            ev.append({"a": "SelectIndex", "n": rng.randrange(size), "kind": kind})
        pts = GW.probe_points(w, rng, limit=30)
        for _ in range(3 if tier == "quick" else 8):
            ps = [rng.choice(pts) for _ in range(rng.randint(1, 5))]
            ps.insert(rng.randrange(len(ps) + 1), pts[0])
            for policy in ("error", "drop"):
                e = {"a": "SelectPoints", "ps": ps, "policy": policy, "dim": pick(["point", "station", "index"])}
                if rng.random() < 0.35:
                    e["dim"] = ""; e["default_dim"] = True
                ev.append(e)
            for policy in ("error", "drop", "fill"):
                ev.append({"a": "ExtractDF", "ps": ps, "policy": policy, "dim": pick(["point", "obs"])})
        # the corners of the last cell (on the far rim of the model) together with points just beyond them
        rim = [list(p) for p in (GW.abstract_polys(w)[-1] or [])]
        if rim:
            beyond = [[p[0] + 3, p[1] + 3] for p in rim[:2]]
            for policy in ("error", "drop", "fill"):
                ev.append({"a": "ExtractDF", "ps": rim + beyond, "policy": policy, "dim": pick(["point", "obs"])})
            ev.append({"a": "SelectPoints", "ps": rim, "policy": "drop", "dim": pick(["point", "station"])})
        # exactly one miss, at the first / at the last position of the request
        inner = GW.inner_points(w)
        if inner:
            some = [rng.choice(inner) for _ in range(rng.randint(1, 3))]
            for ps in ([GW.far_point(w)] + some, some + [GW.far_point(w)]):
                for policy in ("error", "drop"):
                    ev.append({"a": "SelectPoints", "ps": ps, "policy": policy, "dim": pick(["point", "station"])})
                for policy in ("error", "drop", "fill"):
                    ev.append({"a": "ExtractDF", "ps": ps, "policy": policy, "dim": pick(["point", "obs"])})
            # a table in which one row has no position (NaN, NaN): an ordinary miss, with rows after it
            from ..worlds import NANQ
            table = some[:1] + [[NANQ, NANQ]] + some + [GW.far_point(w)] + some[:1]
            for policy in ("error", "drop", "fill"):
                ev.append({"a": "ExtractDF", "ps": table, "policy": policy, "dim": pick(["point", "obs"])})
        # the dataset is then modified in place and everything is asked again (same dataset object, same accessor)
        k = len(ev)
        again = [dict(e) for e in ev if rng.random() < 0.5][: (6 if tier == "quick" else 20)]
        ev.append({"a": "Mutate", "off": 3, "total": 3})
        ev += again
        ev.append({"a": "Mutate", "off": 2, "total": 5})
        ev += [dict(e) for e in again[:3]]
        out.append({"src": "gen", "world": w, "events": ev})
    return out


def nontrivial(case: dict) -> bool:
    return any(e["a"] == "SelectIndexes" and (len(set(e["ns"])) < len(e["ns"]) or e["kind"] != "face")
               or e["a"] in ("SelectPoints", "ExtractDF") for e in case["events"])


execute = CD.execute_cells


SIGNATURES = {"F21": CD.f21}
