"""C16  The geometry cache key depends on the geometry and on nothing else."""
from __future__ import annotations

import hashlib
import json
import os
import random
import subprocess
import sys
import tempfile

import numpy
import xarray

from .. import cellsdrv as CD, geoworlds as GW, meshtabs, tlc, worlds as W
from ..project import outcome
from ..worlds import NANQ, SCALE, f2q

ID = "C16"
TITLE = "The geometry cache key depends on the geometry and on nothing else"
MC = {"quick": [("MC_C16", "MC_C16.cfg", 8)], "thorough": [("MC_C16", "MC_C16.cfg", 8)]}
TRACE = ("Trace_C16", "Trace_C16.cfg")
REQUIRED = ["edit-none", "edit-EditData", "edit-AddTimeStep", "edit-EditGlobalAttr", "edit-AddDataVar", "edit-EditGeomValue",
            "edit-ChangeGeomDtype", "edit-ReshapeSameBytes", "edit-RenameGeom", "edit-AttrAdd", "edit-AttrChange",
            "edit-AttrRemove", "edit-ChangeConvention", "route-inproc", "route-copy", "route-reopen", "route-runtime",
            "route-subproc1", "route-subproc2", "route-fortran", "route-setcoords", "route-inplace", "route-afteruse", "route-keyorder", "edit-TransposeValues", "cf1d", "cf2d", "shoc_simple", "shoc_standard", "arakawa", "ugrid"]
RULE = ("one case = one base dataset (every convention) and its variants: the same dataset obtained by five routes (built in "
        "process, deep copy, saved and reopened, attribute strings built at run time, fresh interpreters with two other hash "
        "seeds), four edits of non-geometry content and every kind of single geometry edit (one value, dtype, shape with the "
        "same bytes, rename, attribute add / change / remove, convention); the exact hash.update() payload sequence and the "
        "key of each variant are recorded; non-trivial = every case (>= 15 variants)")
ASSUMPTIONS = ["collision resistance of blake2b is trusted (keys are compared for equality only)",
               "marshal is an opaque serialiser that must be functional and injective in the attribute values",
               "the inventory of geometry variables is the concretiser's (coordinates, bounds, mesh and supplied connectivity variables)"]
EXHAUSTIVE = {"quick": False, "thorough": False}
PARALLEL = True


class Recorder:
    def __init__(self):
        self.h = hashlib.blake2b(digest_size=32)
        self.payloads = []

    def update(self, b):
        b = bytes(b)
        self.payloads.append(list(b))
        self.h.update(b)

    def hexdigest(self):
        return self.h.hexdigest()


def geometry_names(w: dict, ds: xarray.Dataset) -> list[str]:
    conv = w["conv"]
    if conv in ("cf1d", "cf2d", "shoc_simple"):
        nm = dict(W.DEFAULT_NAMES[conv]); nm.update(w.get("names") or {})
        names = [nm["lon"], nm["lat"]]
        for n in (nm["lon"], nm["lat"]):
            b = ds[n].attrs.get("bounds")
            if b and b in ds.variables:
                names.append(b)
        return names
    if conv in ("shoc_standard", "arakawa"):
        cn = W.arakawa_coord_names(w)
        return [n for k in ("face", "node", "left", "back") for n in (cn[k][1], cn[k][0])]
    names = ["Mesh2", "Mesh2_face_nodes", "Mesh2_node_x", "Mesh2_node_y"]
    sup = set((w.get("enc") or {}).get("supplied", []))
    for k, n in (("fe", "Mesh2_face_edges"), ("ff", "Mesh2_face_links"), ("en", "Mesh2_edge_nodes"), ("ef", "Mesh2_edge_faces")):
        if k in sup:
            names.append(n)
    for n in ("Mesh2_face_x", "Mesh2_face_y"):
        if n in ds.variables:
            names.append(n)
    return names


def dtype_name(da) -> str:
    return numpy.dtype(da.encoding.get("dtype", da.values.dtype)).name


def abstract_geometry(w, ds, cls_name) -> dict:
    vs = []
    for n in geometry_names(w, ds):
        da = ds[n]
        raw = numpy.asarray(da.values).reshape(-1)
        if da.dtype.kind == "f" and not n.startswith("Mesh2_face_n") and "Mesh2_" not in n or n in ("Mesh2_node_x", "Mesh2_node_y", "Mesh2_face_x", "Mesh2_face_y"):
            vals = [f2q(x) for x in raw.tolist()]
        else:
            vals = [NANQ if (isinstance(x, float) and x != x) else int(x) for x in raw.tolist()]
        vs.append({"name": n, "dtype": dtype_name(da), "shape": [int(s) for s in da.shape], "vals": vals,
                   "attrs": sorted([str(k), str(v)] for k, v in da.attrs.items())})
    return {"vars": vs, "class": cls_name}


def inputs_of(w, ds) -> list[dict]:
    out = []
    for n in geometry_names(w, ds):
        da = ds[n]
        out.append({"nb": list(str(n).encode()), "dtb": list(dtype_name(da).encode()), "shape": [int(s) for s in da.shape],
                    "bytes": list(da.to_numpy().tobytes("C")), "nattrs": len(da.attrs)})
    return out


def base_world(conv: str, rng: random.Random) -> dict:
    if conv == "ugrid":
        m = meshtabs.supplied_tables(W.mesh_from_squares([["Q", "A"]]), rng)
        w = W.counts_world("ugrid", nface=len(m["faces"]), nnode=len(m["nodes"]), nedge=len(m["edges"]))
        m["face_centres"] = [[m["nodes"][f[0]][0] + 1, m["nodes"][f[0]][1] + 2] for f in m["faces"]]      # face_x / face_y coordinate variables
        w["mesh"] = m
        w["enc"] = {"base": 0, "fill": "nan", "supplied": ["en"], "edge_dim": "implied", "coords_as": "plain"}
    elif conv == "cf1d":
        w = GW.structured_world(conv, 2, 3, bounds=True)
    elif conv in ("cf2d", "shoc_simple"):
        w = GW.structured_world(conv, 3, 3, shape="skew", bounds=True)      # square: a mirrored grid has the same shape
    else:
        w = GW.structured_world(conv, 2, 3, shape="skew", bounds=(conv != "arakawa"))
    CD.add_data_vars(w, rng, rich=False)
    if conv == "ugrid":
        w["first_var"] = "eta"      # a (time, face) variable declared first: the time dimension (two records) precedes "Two"
    return w


def edit_target(w) -> str:
    conv = w["conv"]
    if conv in ("cf1d", "cf2d", "shoc_simple"):
        return dict(W.DEFAULT_NAMES[conv], **(w.get("names") or {}))["lat"]
    if conv in ("shoc_standard", "arakawa"):
        return W.arakawa_coord_names(w)["face"][0]
    return "Mesh2_node_x"


def edits_for(w) -> list[dict]:
    var = edit_target(w)
    base = {"var": var, "pos": 1, "value": 0, "dtype": "", "new": "", "key": "", "class": ""}
    eds = [dict(base, kind=k) for k in ("none", "EditData", "AddTimeStep", "EditGlobalAttr", "AddDataVar")]
    eds.append(dict(base, kind="EditGeomValue", pos=1, value=4242))
    if w["conv"] in ("cf1d", "cf2d", "shoc_simple") and "xb" in w.get("geom", {}):
        nm = dict(W.DEFAULT_NAMES[w["conv"]], **(w.get("names") or {}))
        eds.append(dict(base, kind="EditGeomValue", var=nm.get("lon_bounds", "lon_bnds"), pos=2, value=4343))
    eds.append(dict(base, kind="ChangeGeomDtype", dtype="float32"))
    eds.append(dict(base, kind="AttrAdd", key="comment", value="added"))
    eds.append(dict(base, kind="AttrAdd", key="_CoordinateAxisType", value="Lat"))      # attribute names may start with an underscore
    eds.append(dict(base, kind="AttrChange", key="long_name", value="changed"))
    eds.append(dict(base, kind="AttrRemove", key="long_name"))
    eds.append(dict(base, kind="ChangeConvention", **{"class": "Other"}))
    if w["conv"] in ("cf1d", "cf2d"):
        eds.append(dict(base, kind="RenameGeom", new="renamed_lat"))
    if w["conv"] == "cf2d":
        eds.append(dict(base, kind="ReshapeSameBytes"))
    if w["conv"] in ("cf2d", "shoc_simple") and w["ny"] == w["nx"]:
        eds.append(dict(base, kind="TransposeValues"))      # every (y, x) geometry variable mirrored about the diagonal
    return eds


def cases(tier: str, seed: int) -> list[dict]:
    rng = random.Random(seed + 16)
    out = []
    for conv in W.ALL_CONVS:
        for rep in range(1 if tier == "quick" else 3):
            w = base_world(conv, rng)
            ev = [{"a": "Key", "edit": edits_for(w)[0], "route": r} for r in ("inproc", "copy", "runtime", "subproc1", "subproc2")]
            if conv != "ugrid":
                ev.append({"a": "Key", "edit": edits_for(w)[0], "route": "reopen"})
            for ed in edits_for(w)[1:]:
                ev.append({"a": "Key", "edit": ed, "route": "inproc"})
            ev.append({"a": "Key", "edit": edits_for(w)[5], "route": "copy"})      # an edited geometry twice: same key
            ev.append({"a": "Key", "edit": edits_for(w)[0], "route": "fortran"})
            ev.append({"a": "Key", "edit": edits_for(w)[0], "route": "setcoords"})
            for ed in edits_for(w):      # the dataset is asked for its key, edited in place, and asked again
                if ed["kind"] in ("none", "EditData", "EditGeomValue", "AttrAdd", "AttrChange", "AttrRemove"):
                    ev.append({"a": "Key", "edit": ed, "route": "inplace"})
            bnd = [e for e in edits_for(w) if e["kind"] == "EditGeomValue" and e["var"] != edit_target(w)]
            for e in bnd:      # a bounds value edited, bounds held as data variables / as coordinates
                ev.append({"a": "Key", "edit": e, "route": "setcoords"})
            if any(e["kind"] == "TransposeValues" for e in edits_for(w)):
                tv = next(e for e in edits_for(w) if e["kind"] == "TransposeValues")
                ev.append({"a": "Key", "edit": tv, "route": "fortran"})
            # the dataset is asked for its key, USED (polygons, bounds, spatial index, centres, a clip), and asked again
            ev.append({"a": "Key", "edit": edits_for(w)[0], "route": "afteruse"})
            if conv == "arakawa":
                ev.append({"a": "Key", "edit": edits_for(w)[0], "route": "keyorder"})
                ev.append({"a": "Key", "edit": edits_for(w)[5], "route": "keyorder"})
            out.append({"src": "gen", "world": w, "events": ev})
    # a mesh whose coordinate lists (node_coordinates, face_coordinates) are separated by two blanks: every variable named
    # there belongs to the geometry, and an edit of the second one changes the key
    for nodes_too in (True, False):
      w = base_world("ugrid", rng)
      w["enc"] = dict(w["enc"], coord_sep="  ", coord_sep_nodes=nodes_too)
      fy = {"var": "Mesh2_face_y", "pos": 1, "value": 0, "dtype": "", "new": "", "key": "", "class": ""}
      out.append({"src": "gen", "world": w, "events": [
        {"a": "Key", "edit": edits_for(w)[0], "route": "inproc"}, {"a": "Key", "edit": edits_for(w)[0], "route": "copy"},
        {"a": "Key", "edit": dict(fy, kind="EditGeomValue", pos=2, value=4545), "route": "inproc"},
        {"a": "Key", "edit": dict(fy, kind="AttrAdd", key="comment", value="added"), "route": "copy"},
        {"a": "Key", "edit": dict(fy, kind="ChangeGeomDtype", dtype="float32"), "route": "inproc"},
        {"a": "Key", "edit": edits_for(w)[0], "route": "afteruse"}]})
    # a mesh whose topology names an edge-node variable that is NOT in the file, next to a real edge-face table: the
    # edge-face table belongs to the geometry, an edit of it changes the key
    w = base_world("ugrid", rng)
    w["enc"] = dict(w["enc"], supplied=["ef"], edge_dim="implied", dangling_en=True)
    ef = {"var": "Mesh2_edge_faces", "pos": 1, "value": 0, "dtype": "", "new": "", "key": "", "class": ""}
    out.append({"src": "gen", "world": w, "events": [
        {"a": "Key", "edit": edits_for(w)[0], "route": "inproc"}, {"a": "Key", "edit": edits_for(w)[0], "route": "copy"},
        {"a": "Key", "edit": dict(ef, kind="AttrAdd", key="comment", value="added"), "route": "inproc"},
        {"a": "Key", "edit": dict(ef, kind="ChangeGeomDtype", dtype="float32"), "route": "copy"}]})
    # curvilinear grids whose bounds have to be derived, with a cell flanked by cells without coordinates
    for conv in ("cf2d", "shoc_simple"):
        w = GW.structured_world(conv, 3, 3, shape="rect", bounds=False, holes=[(1, 0), (1, 2)])
        CD.add_data_vars(w, rng, rich=False)
        none = edits_for(w)[0]
        out.append({"src": "gen", "world": w, "events": [{"a": "Key", "edit": none, "route": r} for r in ("inproc", "copy", "afteruse", "inplace", "reopen")]})
    return out


def nontrivial(case: dict) -> bool:
    return True


# ------------------------------------------------------------------ concretisation of edits and routes
def build_base(w) -> xarray.Dataset:
    ds = W.build(w)
    for n in geometry_names(w, ds):
        ds[n].attrs.setdefault("long_name", "geometry variable " + str(n))
    return ds


def apply_edit(w, ds, ed):
    k = ed["kind"]
    var = ed["var"]
    if k == "none":
        return ds
    ds = ds.copy(deep=True)
    if k == "EditData":
        a = ds["temp"].values.copy(); a.flat[0] = 12345.0
        ds["temp"] = (ds["temp"].dims, a, ds["temp"].attrs)
    elif k == "AddTimeStep":
        tvars = [n for n in ds.data_vars if "t" in ds[n].dims]
        more = ds[tvars].isel(t=[-1])
        tname = [c for c in ds.coords if ds[c].dims == ("t",)]
        grown = xarray.concat([ds[tvars], more], dim="t", data_vars="minimal", coords="minimal", compat="override")
        rest = ds.drop_vars(tvars).drop_dims("t", errors="ignore")
        ds = xarray.merge([rest, grown], compat="override", join="override")
        ds.attrs = dict(rest.attrs)
    elif k == "EditGlobalAttr":
        ds.attrs["title"] = "edited title"
    elif k == "AddDataVar":
        ds["extra_variable"] = ds["temp"] * 2
    elif k == "EditGeomValue":
        da = ds[var]
        a = numpy.asarray(da.values).copy()
        a.flat[ed["pos"] - 1] = ed["value"] * SCALE
        ds = _replace(ds, var, a, da)
    elif k == "ChangeGeomDtype":
        da = ds[var]
        ds = _replace(ds, var, numpy.asarray(da.values).astype(ed["dtype"]), da)
    elif k == "AttrAdd":
        ds[var].attrs[ed["key"]] = ed["value"]
    elif k == "AttrChange":
        ds[var].attrs[ed["key"]] = ed["value"]
    elif k == "AttrRemove":
        del ds[var].attrs[ed["key"]]
    elif k == "RenameGeom":
        ds = ds.rename({var: ed["new"]})
    elif k == "ReshapeSameBytes":
        ny, nx = w["ny"], w["nx"]
        new = {}
        for n in ds.variables:
            v = ds[n]
            if v.dims[:2] == ("y", "x"):
                new[n] = (v.dims, numpy.asarray(v.values).reshape((nx, ny) + v.shape[2:]), v.attrs)
        others = {n: ds[n] for n in ds.data_vars if n not in new and "y" not in ds[n].dims and "x" not in ds[n].dims}
        coords = {n: new.pop(n) for n in list(new) if n in ds.coords}
        ds2 = xarray.Dataset({**{n: v for n, v in new.items()}, **others}, coords=coords, attrs=ds.attrs)
        for n in ds.coords:
            if n not in ds2.variables and "y" not in ds[n].dims and "x" not in ds[n].dims:
                ds2 = ds2.assign_coords({n: ds[n]})
        ds = ds2
    elif k == "TransposeValues":
        for n in geometry_names(w, ds):
            da = ds[n]
            if da.ndim >= 2 and da.shape[0] == da.shape[1]:
                ds = _replace(ds, n, numpy.ascontiguousarray(numpy.swapaxes(numpy.asarray(da.values), 0, 1)), da)
    elif k == "ChangeConvention":
        pass
    return ds


def _replace(ds, var, arr, like):
    if var in ds.coords:
        new = xarray.DataArray(arr, dims=like.dims, attrs=like.attrs)
        return ds.assign_coords({var: new})
    ds[var] = (like.dims, arr, like.attrs)
    return ds


def via_route(w, ds, route, work):
    if route == "copy":
        return ds.copy(deep=True)
    if route == "runtime":
        ds = ds.copy(deep=True)
        for n in ds.variables:
            ds[n].attrs = {"".join(list(str(k))): ("".join(list(v)) if isinstance(v, str) else v) for k, v in ds[n].attrs.items()}
        return ds
    if route == "fortran":
        # the same values held in Fortran-ordered memory (as after a transpose, or arrays built with order="F")
        ds = ds.copy(deep=True)
        for n in geometry_names(w, ds):
            da = ds[n]
            if da.ndim >= 2:
                ds = _replace(ds, n, numpy.asfortranarray(numpy.asarray(da.values)), da)
        return ds
    if route == "setcoords":
        # the bounds (and any other non-coordinate geometry variable) promoted to coordinate variables, as after
        # open_dataset(decode_coords="all") or Dataset.set_coords: same variables, same values, same geometry
        # (the mesh topology variable and the connectivity tables are not coordinates in any sense; they stay data variables)
        return ds.copy(deep=True).set_coords([n for n in geometry_names(w, ds) if n in ds.data_vars and ds[n].dtype.kind == "f" and "_nodes" not in str(n) and "_edges" not in str(n)
                                               and "_links" not in str(n) and "_faces" not in str(n)])
    if route == "reopen":
        p = os.path.join(work, "reopen.nc")
        ds.to_netcdf(p)
        r = xarray.open_dataset(p).load()
        r.close()
        return r
    return ds


def key_of(w, ds, ed, bound=False):
    from emsarray.operations.cache import make_cache_key
    if ed["kind"] == "ChangeConvention":
        base_cls = type(W.bind(w, ds.copy()))
        Other = type("Other", (base_cls,), {})
        kw = {"coordinate_names": W.arakawa_coord_names(w)} if w["conv"] == "arakawa" else {}
        conv = Other(ds, **kw)
        conv.bind()
    elif bound:
        conv = ds.ems
    else:
        conv = W.bind(w, ds)
    rec = Recorder()
    key = make_cache_key(ds, hash=rec)
    # the call users make - default hash object - observed by standing in for `hashlib` inside the cache module
    import emsarray.operations.cache as cachemod
    made = []

    class _Shim:
        def __getattr__(self, n):
            return getattr(hashlib, n)

        def blake2b(self, *a, **kw):
            r = Recorder()
            r.h = hashlib.blake2b(*a, **kw)
            made.append(r)
            return r
    real = cachemod.hashlib
    cachemod.hashlib = _Shim()
    try:
        key_default = make_cache_key(ds)
    finally:
        cachemod.hashlib = real
    import emsarray
    return {"payloads": rec.payloads, "key": key,
            "default": {"key": key_default, "payloads": made[0].payloads if made else []}}, {"module": list(type(conv).__module__.encode()),
                                                     "classb": list(type(conv).__name__.encode()),
                                                     "version": list(emsarray.__version__.encode())}, type(conv).__name__


def apply_edit_inplace(w, ds, ed):
    """the edit made on the SAME dataset object (which already has its accessor and has been asked for its key)"""
    k = ed["kind"]
    var = ed["var"]
    if k == "EditGeomValue":
        da = ds[var]
        a = numpy.asarray(da.values).copy()
        a.flat[ed["pos"] - 1] = ed["value"] * SCALE
        if var in ds.coords:
            ds.coords[var] = (da.dims, a, dict(da.attrs))
        else:
            ds[var] = (da.dims, a, dict(da.attrs))
    elif k in ("AttrAdd", "AttrChange"):
        ds[var].attrs[ed["key"]] = ed["value"]
    elif k == "AttrRemove":
        del ds[var].attrs[ed["key"]]
    elif k == "EditData":
        a = ds["temp"].values.copy(); a.flat[0] = 12345.0
        ds["temp"] = (ds["temp"].dims, a, ds["temp"].attrs)
    elif k != "none":
        raise ValueError("no in-place form of " + k)
    return ds


def variant(w, ed, route, work):
    if route == "inplace":
        from emsarray.operations.cache import make_cache_key
        ds = build_base(w)
        W.bind(w, ds)
        make_cache_key(ds)                   # asked once before the edit
        ds = apply_edit_inplace(w, ds, ed)
        obs, trailer, cname = key_of(w, ds, ed, bound=True)
        return obs, trailer, inputs_of(w, ds), cname
    if route == "afteruse":
        from emsarray.operations.cache import make_cache_key
        import shapely
        ds = build_base(w)
        conv = W.bind(w, ds)
        make_cache_key(ds)                   # asked once before the dataset is used
        polys = conv.polygons
        conv.strtree, conv.bounds, conv.geometry, conv.face_centres, conv.mask
        for name in ("temp",):
            if name in ds.variables:
                conv.ravel(ds[name]).values
        some = next((p for p in polys if p is not None), None)
        if some is not None:
            os.makedirs(os.path.join(str(work), "clipwork"), exist_ok=True)
            conv.clip(some.buffer(1e-3), os.path.join(str(work), "clipwork")).load()
            conv.select_point(shapely.Point(some.representative_point()))
        obs, trailer, cname = key_of(w, ds, ed, bound=True)
        return obs, trailer, inputs_of(w, ds), cname
    ds = apply_edit(w, build_base(w), ed)
    if ed["kind"] == "RenameGeom":
        w = dict(w)
        nm = dict(w.get("names") or {})
        nm["lat"] = ed["new"]
        if w["conv"] == "cf1d":
            nm["ydim"] = ed["new"]          # renaming a dimension coordinate renames its dimension
        w["names"] = nm
    if route == "keyorder":
        # the same hand-made Arakawa C convention, the caller's coordinate_names written in another key order
        w = dict(w, korder=w.get("korder", w.get("ny", 0) + 2 * w.get("nx", 0)) + 1)
        ds = ds.copy(deep=True)
    ds = via_route(w, ds, route, work)
    obs, trailer, cname = key_of(w, ds, ed)
    return obs, trailer, inputs_of(w, ds), cname


def execute(case: dict) -> dict:
    w = case["world"]
    rec = {"tid": case["tid"], "src": case["src"], "events": []}
    base_ds = build_base(w)
    cname = type(W.bind(w, base_ds)).__name__
    rec["w"] = {"conv": w["conv"], "G": abstract_geometry(w, base_ds, cname)}
    with tempfile.TemporaryDirectory(dir=str(tlc.WORK)) as work:
        for e in case["events"]:
            e = dict(e)
            try:
                if e["route"].startswith("subproc"):
                    env = dict(os.environ, PYTHONHASHSEED=str(1000 + int(e["route"][-1])), PYTHONPATH=str(tlc.VERIF) + (os.pathsep + os.environ["PYTHONPATH"] if os.environ.get("PYTHONPATH") else ""))
                    p = subprocess.run([sys.executable, "-W", "ignore", "-m", "harness.props.c16", "--variant"],
                                       input=json.dumps({"w": w, "edit": e["edit"]}), capture_output=True, text=True, env=env,
                                       cwd=str(tlc.VERIF), timeout=300)
                    if p.returncode != 0:
                        raise RuntimeError(p.stderr[-500:])
                    r = json.loads(p.stdout.splitlines()[-1])
                    obs, trailer, inputs = r["obs"], r["trailer"], r["inputs"]
                else:
                    obs, trailer, inputs, _ = variant(w, e["edit"], e["route"], work)
                e["obs"] = {"ok": obs}
                e.update(trailer)
                e["inputs"] = inputs
            except Exception as ex:
                e["obs"] = {"err": type(ex).__name__}
                e.update({"module": [], "classb": [], "version": [], "inputs": []})
            rec["events"].append(e)
    return rec


# known finding F7: equal attribute dictionaries are marshalled to different bytes (marshal version 4 records whether a
# string is interned and whether other references to it exist), so the key of one and the same geometry varies
def _decoded(e):
    import marshal
    out = {}
    p = e["obs"]["ok"]["payloads"]
    for k in range((len(p) - 6) // 11):
        b = p[11 * k: 11 * k + 11]
        out[bytes(b[1])] = (marshal.loads(bytes(b[10])), bytes(b[10]))
    return out


def _f7(rec: dict, failing: list) -> bool:
    ev = rec["events"]
    if any(c != "AttrsSerialisationFunctional" for _, c in failing):
        return False
    for l, _ in failing:
        me = _decoded(ev[l - 1])
        # an earlier variant whose attribute dictionaries decode to the very same values but were written differently
        if not any("ok" in f["obs"] and {k: v[0] for k, v in _decoded(f).items()} == {k: v[0] for k, v in me.items()}
                   and {k: v[1] for k, v in _decoded(f).items()} != {k: v[1] for k, v in me.items()} for f in ev[: l - 1]):
            return False
    return True


SIGNATURES = {"F7": _f7}

if __name__ == "__main__" and "--variant" in sys.argv:
    import dask
    dask.config.set(scheduler="synchronous")
    req = json.loads(sys.stdin.read())
    with tempfile.TemporaryDirectory() as work:
        obs, trailer, inputs, _ = variant(req["w"], req["edit"], "inproc", work)
    print(json.dumps({"obs": obs, "trailer": trailer, "inputs": inputs}))
