"""C06  Cell polygons and dataset extent are faithful to the dataset's coordinates."""
from __future__ import annotations

import random
import warnings

import shapely

from .. import geoworlds as GW, worlds as W
from ..project import outcome, polygon_vertices
from ..worlds import INEXACT, SCALE, f2q

ID = "C06"
TITLE = "Cell polygons and dataset extent are faithful to the dataset's coordinates"
MC = {"quick": [("MC_C06", "MC_C06.cfg", 8)], "thorough": [("MC_C06", "MC_C06.cfg", 16)]}
TRACE = ("Trace_C06", "Trace_C06.cfg")
REPEAT_EVENTS = 2      # see core.check
THOROUGH_EXTRA_SEEDS = 2
RULE = ("one case = one dataset with lattice geometry (per convention: ascending / descending / non-uniform 1-D axes "
        "with stored or derived bounds; rectangular and skewed 2-D grids with stored or derived bounds, NaN holes and a "
        "bow-tie cell; node grids with masked corners; lattice meshes of triangles, quads, hexagons and concave faces, "
        "0/1-based, NaN / _FillValue / no fill, transposed; coordinates as coords or plain variables) for which "
        "polygons, mask, warnings, bounds and geometry (area, bbox, membership of lattice sample points) are recorded; "
        "non-trivial = has a hole, an invalid cell, derived bounds, a non-rectangular lattice or a mesh")
ASSUMPTIONS = [
    "coordinates are integer multiples of 2^-6 degree so every derived coordinate is exact in binary floating point",
    "cells whose synthesised ring collapses (fewer than 3 distinct points or zero area) are outside the property and skipped per clause",
    "the area of the union is read from GEOS; it is required to be an exact integer number of half square quanta",
    "generated cells do not overlap (lattice construction), so the union's area is the sum of the cell areas",
]
EXHAUSTIVE = {"quick": False, "thorough": False}


def cases(tier: str, seed: int) -> list[dict]:
    rng = random.Random(seed)
    out = []
    for w in GW.geo_worlds(tier, seed):
        pts = GW.probe_points(w, rng, limit=40)
        out.append({"src": "gen", "world": w,
                    "events": [{"a": "Polygons"}, {"a": "Bounds"}, {"a": "Geometry", "points": pts}]})
        # stored CF bounds held as xarray coordinates (decode_coords="all") for 1-D grids
        if w["conv"] == "cf1d" and "xb" in w["geom"]:
            w2 = dict(w); w2["bounds_as"] = "coords"
            out.append({"src": "gen", "world": w2,
                        "events": [{"a": "Polygons"}, {"a": "Bounds"}, {"a": "Geometry", "points": pts}]})
    return out


def nontrivial(case: dict) -> bool:
    w = case["world"]
    if w["conv"] == "ugrid":
        return True
    g = w["geom"]
    return bool(g.get("holes")) or "xb" not in g or g.get("shape") != "rect" or "bowtie" in g


def area2_q(geom) -> int:
    v = geom.area * 2 / (SCALE * SCALE)
    r = round(v)
    return int(r) if abs(v - r) < 1e-6 else INEXACT


def execute(case: dict) -> dict:
    w = case["world"]
    from .. import viafile
    ds = viafile.hold_ds(w, W.build(w))
    from ..cellsdrv import snapshot as _snapshot
    _before = _snapshot(ds)
    if w.get("bounds_as") == "coords":
        names = [ds[n].attrs["bounds"] for n in ds.variables if "bounds" in ds[n].attrs]
        ds = ds.set_coords(names)
    conv = W.bind(w, ds)
    rec = {"tid": case["tid"], "src": case["src"], "w": GW.tlc_world(w), "events": []}
    for e in case["events"]:
        e = dict(e)
        if e["a"] == "Polygons":
            def polygons():
                from emsarray.exceptions import InvalidPolygonWarning
                with warnings.catch_warnings(record=True) as caught:
                    warnings.simplefilter("always")
                    polys = conv.polygons
                    mask = conv.mask
                return {"polys": [polygon_vertices(p) for p in polys], "mask": [bool(m) for m in mask],
                        "warned": any(issubclass(c.category, InvalidPolygonWarning) for c in caught)}
            e["obs"] = outcome(polygons)
        elif e["a"] == "Bounds":
            e["obs"] = outcome(lambda: [f2q(v) for v in conv.bounds])
        elif e["a"] == "Geometry":
            pts = e.pop("points")

            def geometry():
                geom = conv.geometry
                return {"area2": area2_q(geom), "bbox": [f2q(v) for v in geom.bounds],
                        "samples": [[p[0], p[1], bool(geom.intersects(shapely.Point(p[0] * SCALE, p[1] * SCALE)))]
                                    for p in pts]}
            e["obs"] = outcome(geometry)
        rec["events"].append(e)
    rec["input"] = {"before": _before, "after": _snapshot(ds)}
    return rec


from .. import viafile as _viafile  # noqa: E402
execute = _viafile.closing(execute)
