"""C15  Geometry export round-trips every cell with its indexes."""
from __future__ import annotations

import os
import random

from .. import cellsdrv as CD, geoworlds as GW, tlc

ID = "C15"
TITLE = "Geometry export round-trips every cell with its indexes"
MC = {"quick": [("MC_Export", "MC_Export.cfg", 4)], "thorough": [("MC_Export", "MC_Export_thorough.cfg", 16)]}
TRACE = ("Trace_Cells", "Trace_Cells.cfg")
REPEAT_EVENTS = 2      # see core.check
THOROUGH_EXTRA_SEEDS = 2
REQUIRED = ["Export", "via-cli", "fmt-geojson", "fmt-shapefile", "fmt-wkt", "fmt-wkb", "holes",
            "cf1d", "cf2d", "shoc_simple", "shoc_standard", "arakawa", "ugrid"]
RULE = ("one case = one dataset with lattice geometry (holes, skewed cells, meshes with 3-8 sided faces, multi-kind "
        "native indexes) exported by write_geojson / write_shapefile / write_wkt / write_wkb and read back by independent "
        "readers (json, shapefile.Reader by field position, shapely.from_wkt / from_wkb); non-trivial = has a hole or is a "
        "mesh or uses a multi-kind native index")
ASSUMPTIONS = ["third-party encoders / decoders are trusted; the property is decided on what the independent reader returns",
               "rings are compared up to starting vertex and direction"]
EXHAUSTIVE = {"quick": False, "thorough": False}


def cases(tier: str, seed: int) -> list[dict]:
    rng = random.Random(seed + 15)
    out = []
    for k, w in enumerate(GW.geo_worlds(tier, seed)):
        CD.add_data_vars(w, rng, rich=False)
        d = tlc.WORK / "C15" / f"exp-{os.getpid()}-{seed}-{k}"
        ev = [{"a": "Export", "fmt": fmt, "path": str(d / fmt / ("out." + ext))}
              for fmt, ext in (("geojson", "geojson"), ("shapefile", "shp"), ("wkt", "wkt"), ("wkb", "wkb"))]
        if w["conv"] != "arakawa" and (tier == "thorough" or k % 2 == 0):
            # the same exports through `emsarray export-geometry` on a file whose coordinates carry an on-disk encoding
            # (plain / a finite _FillValue for the cells without coordinates / packed integers)
            if w["conv"] != "ugrid":
                w["coordenc"] = [None, "fill", "packed"][(k // 2) % 3]
            fmts = (("geojson", "geojson"), ("shapefile", "shp"), ("wkt", "wkt"), ("wkb", "wkb"))
            for fmt, ext in (fmts if tier == "thorough" else [fmts[(k // 2) % 4], fmts[(k // 2 + 1) % 4]]):
                ev.append({"a": "Export", "fmt": fmt, "path": str(d / ("cli-" + fmt) / ("out." + ext)), "via": "cli"})
        out.append({"src": "gen", "world": w, "events": ev})
    return out


def nontrivial(case: dict) -> bool:
    w = case["world"]
    return w["conv"] in ("ugrid", "shoc_standard", "arakawa") or bool(w["geom"].get("holes"))


execute = CD.execute_cells
