"""C03  Flattening and winding variables are exact inverses."""
from __future__ import annotations

import itertools
import random

import numpy
import xarray

from .. import worlds as W
from ..project import BADINT, outcome

ID = "C03"
TITLE = "Flattening and winding variables are exact inverses"
MC = {
    "quick": [("MC_C03_defs", "MC_C03.cfg", 8)],
    "thorough": [("MC_C03_defs", "MC_C03_thorough.cfg", 16)],
}
TRACE = ("Trace_C03", "Trace_C03.cfg")
# the repository\'s own tests, recorded by harness/harvest_plugin.py, judged by the same trace specification
ALSO = {"quick": [], "thorough": ["harness.props.hv03"]}
RULE = ("one case = one variable layout (convention, grid kind, 0-3 extra dimensions, one permutation of the "
        "dimension order, dtype) driven through ravel -> wind -> ravel(custom name) -> wind(by name), or fresh "
        "linear data with the linear dimension at a chosen position wound by default / axis / negative axis / "
        "name and flattened again, plus direct utils.ravel_dimensions / wind_dimension calls and refused "
        "variables; non-trivial = grid dimensions not already last in convention order, or >= 1 extra dimension")
ASSUMPTIONS = [
    "an explicitly supplied linear dimension name equal to a remaining (non-flattened) dimension is outside the "
    "quantifier (xarray itself rejects duplicate dimension names) and is not generated",
    "values are integer tags (arange); 'never altered' is decided as tag equality",
]
EXHAUSTIVE = {"quick": False, "thorough": False}

EXTRA_POOL = [("t", 2), ("k", 3), ("index", 2), ("index_0", 2)]


def _G(w):
    kinds = W.kinds_of(w)
    if w["conv"] == "ugrid":
        kinds = [k for k in ("node", "face", "edge") if k in kinds]
    return {"kinds": kinds, "dims": {k: list(W.kind_dims(w, k)) for k in kinds},
            "shape": {k: list(W.kind_shape(w, k)) for k in kinds}}


def _base_world(conv, rng):
    if conv == "ugrid":
        cells = rng.choice([[["Q", "A"]], [["A"]], [["Q", "B"], ["N", "Q"]]])
        m = W.mesh_from_squares(cells)
        m["edges"] = [list(e) for e in W.mesh_edges(m["faces"])]
        w = W.counts_world("ugrid", nface=len(m["faces"]), nnode=len(m["nodes"]), nedge=len(m["edges"]))
        w["mesh"] = m
        w["enc"] = {"edge_dim": "implied", "supplied": ["en"]}
        return w
    ny, nx = rng.choice([(2, 3), (1, 2), (3, 1), (2, 2), (1, 1)])
    return W.counts_world(conv, ny=ny, nx=nx)


def _wound_case(w, kind, extras, perm, dtype, src):
    G = _G(w)
    gd = G["dims"][kind]; gs = G["shape"][kind]
    sizes = dict(zip(gd, gs)); sizes.update(dict(extras))
    dims = list(perm)
    shape = [sizes[d] for d in dims]
    n = int(numpy.prod(shape))
    arr = {"dims": dims, "shape": shape, "data": list(range(1, n + 1)), "dtype": dtype}
    ev = [{"a": "Load", "arr": arr, "lin": "", "kind": kind},
          {"a": "Ravel", "name": "<default>"},
          {"a": "Wind", "kind": kind, "mode": "default"},
          {"a": "Ravel", "name": "cell" if "cell" not in dims else "cell_x"},
          {"a": "Wind", "kind": kind, "mode": "dim"},
          {"a": "Ravel", "name": gd[0]},          # collides with a flattened grid dimension
          {"a": "Wind", "kind": kind, "mode": "negaxis"},
          {"a": "URavel", "dims": gd, "sizes": gs, "name": "<default>"},
          {"a": "UWind", "dims": gd, "sizes": gs, "mode": "dim"},
          {"a": "Ravel", "name": "<default>", "api": "make_linear"}]       # the older (deprecated, still public) name of ravel
    if kind == "face":
        for e_ in ev:
            if e_["a"] == "Wind" and e_["mode"] in ("default", "negaxis"):
                e_["omit_kind"] = True
    return {"src": src, "w": {"conv": w["conv"], "G": G}, "world": w, "events": ev}


def _linear_case(w, kind, extras, perm, dtype, src, mode):
    G = _G(w)
    gs = G["shape"][kind]
    size = int(numpy.prod(gs))
    sizes = dict(extras); sizes["index"] = size
    dims = list(perm); shape = [sizes[d] for d in dims]
    n = int(numpy.prod(shape))
    arr = {"dims": dims, "shape": shape, "data": list(range(1, n + 1)), "dtype": dtype}
    ev = [{"a": "Load", "arr": arr, "lin": "index", "kind": kind},
          {"a": "Wind", "kind": kind, "mode": mode},
          {"a": "Ravel", "name": "<default>"},
          {"a": "Wind", "kind": kind, "mode": "default"}]
    return {"src": src, "w": {"conv": w["conv"], "G": G}, "world": w, "events": ev}


def _refused_case(w, src):
    G = _G(w)
    k0 = G["kinds"][0]
    evs = []
    arrs = [{"dims": ["t"], "shape": [2], "data": [1, 2], "dtype": "f8"},
            {"dims": ["t", "k"], "shape": [2, 3], "data": list(range(1, 7)), "dtype": "f8"}]
    if len(G["dims"][k0]) == 2:   # only one of the two grid dimensions
        d = G["dims"][k0][0]; s = G["shape"][k0][0]
        arrs.append({"dims": ["t", d], "shape": [2, s], "data": list(range(1, 2 * s + 1)), "dtype": "f8"})
    # (first, a variable OF THE SAME NAME that is on a grid is flattened by the same convention object)
    gd0 = G["dims"][k0]; gs0 = G["shape"][k0]
    evs.append({"a": "Load", "arr": {"dims": list(gd0), "shape": list(gs0), "data": list(range(1, int(numpy.prod(gs0)) + 1)), "dtype": "f8"},
                "lin": "", "kind": k0})
    evs.append({"a": "Ravel", "name": "<default>"})
    for a in arrs:
        evs.append({"a": "Load", "arr": a, "lin": "", "kind": ""})
        evs.append({"a": "Ravel", "name": "<default>"})
    return {"src": src, "w": {"conv": w["conv"], "G": G}, "world": w, "events": evs}


def cases(tier: str, seed: int) -> list[dict]:
    rng = random.Random(seed)
    out = []
    dtypes = ["f8", "i4", "f4", "i8"]
    for conv in W.ALL_CONVS:
        w = _base_world(conv, rng)
        out.append(_refused_case(w, "mc"))
        for kind in W.kinds_of(w):
            gd = list(W.kind_dims(w, kind))
            max_extras = 2 if tier == "quick" else 3
            for ne in range(0, max_extras + 1):
                combos = list(itertools.combinations(EXTRA_POOL, ne))
                if tier == "quick" and ne >= 2:
                    combos = rng.sample(combos, 2)
                for extras in combos:
                    perms = list(itertools.permutations(gd + [e[0] for e in extras]))
                    if tier == "quick" and len(perms) > 6:
                        perms = rng.sample(perms, 6)
                    elif len(perms) > 24 and ne == 3:
                        perms = rng.sample(perms, 24)
                    for perm in perms:
                        out.append(_wound_case(w, kind, extras, perm, rng.choice(dtypes), "mc"))
                    if any(e[0] == "index" for e in extras):
                        continue
                    lperms = list(itertools.permutations(["index"] + [e[0] for e in extras]))
                    if tier == "quick" and len(lperms) > 3:
                        lperms = rng.sample(lperms, 3)
                    for perm in lperms:
                        last = perm[-1] == "index"
                        modes = ["axis", "negaxis", "dim"] + (["default"] if last else [])
                        for mode in (modes if tier == "thorough" else [rng.choice(modes)]):
                            out.append(_linear_case(w, kind, extras, perm, rng.choice(dtypes), "mc", mode))
    # one convention object asked about variables of the SAME NAME on different grids, one after the other
    for conv in ("shoc_standard", "arakawa", "ugrid"):
        w = _base_world(conv, rng)
        kinds = W.kinds_of(w)
        if len(kinds) >= 2:
            a = _wound_case(w, kinds[0], [("t", 2)], ["t"] + list(W.kind_dims(w, kinds[0])), "f8", "mc")
            b = _wound_case(w, kinds[1], [("t", 2)], ["t"] + list(W.kind_dims(w, kinds[1])), "f8", "mc")
            c = _wound_case(w, kinds[-1], [], list(W.kind_dims(w, kinds[-1])), "f8", "mc")
            a["events"] = a["events"][:3] + b["events"][:5] + c["events"][:3] + a["events"][:3]
            out.append(a)
    # a mesh that NAMES an edge dimension (optional attribute) which no variable uses: variables on no grid are still refused,
    # face and node variables still flatten
    m = W.mesh_from_squares([["Q", "A"]])
    m["edges"] = [list(e) for e in W.mesh_edges(m["faces"])]
    wu = W.counts_world("ugrid", nface=len(m["faces"]), nnode=len(m["nodes"]), nedge=-1)
    wu["mesh"] = m
    wu["enc"] = {"edge_dim": "declared", "supplied": []}
    out.append(_refused_case(wu, "mc"))
    for kind in ("face", "node"):
        out.append(_wound_case(wu, kind, [("t", 2)], ["t"] + list(W.kind_dims(wu, kind)), "f8", "mc"))
    # a mesh with as many nodes as faces (eight triangles on eight nodes): sizes alone do not tell the grids apart
    m8 = {"nodes": [[0, 0], [48, 0], [72, 24], [48, 48], [0, 48], [-24, 24], [12, 24], [36, 24]],
          "faces": [[0, 1, 6], [1, 7, 6], [1, 2, 7], [2, 3, 7], [3, 6, 7], [3, 4, 6], [4, 5, 6], [5, 0, 6]]}
    m8["edges"] = [list(e) for e in W.mesh_edges(m8["faces"])]
    w8 = W.counts_world("ugrid", nface=8, nnode=8, nedge=len(m8["edges"]))
    w8["mesh"] = m8
    w8["enc"] = {"edge_dim": "implied", "supplied": ["en"]}
    for kind in ("face", "node"):
        out.append(_wound_case(w8, kind, [("t", 2)], ["t"] + list(W.kind_dims(w8, kind)), "f8", "mc"))
        out.append(_wound_case(w8, kind, [("k", 3)], list(W.kind_dims(w8, kind)) + ["k"], "f4", "mc"))
    # a mesh whose edge connectivity is stored transposed, (Two, edge): only the edge_dimension attribute names the dimension
    mt = W.mesh_from_squares([["Q", "A"], ["B", "Q"]])
    mt["edges"] = [list(e) for e in W.mesh_edges(mt["faces"])]
    wt = W.counts_world("ugrid", nface=len(mt["faces"]), nnode=len(mt["nodes"]), nedge=len(mt["edges"]))
    wt["mesh"] = mt
    wt["enc"] = {"edge_dim": "declared", "supplied": ["en"], "transposed": True}
    out.append(_refused_case(wt, "mc"))
    for kind in ("edge", "face"):
        out.append(_wound_case(wt, kind, [("t", 2)], ["t"] + list(W.kind_dims(wt, kind)), "f8", "mc"))
        out.append(_wound_case(wt, kind, [], list(W.kind_dims(wt, kind)), "i4", "mc"))
    # seeded larger shapes
    for _ in range(10 if tier == "quick" else 150):
        conv = rng.choice(W.ALL_CONVS)
        if conv == "ugrid":
            m = W.random_mesh(rng, rng.randint(2, 5), rng.randint(2, 4))
            m["edges"] = [list(e) for e in W.mesh_edges(m["faces"])]
            w = W.counts_world("ugrid", nface=len(m["faces"]), nnode=len(m["nodes"]), nedge=len(m["edges"]))
            w["mesh"] = m; w["enc"] = {"edge_dim": "implied", "supplied": ["en"]}
        else:
            w = W.counts_world(conv, ny=rng.randint(1, 5), nx=rng.randint(1, 6))
        kind = rng.choice(W.kinds_of(w))
        extras = rng.sample(EXTRA_POOL, rng.randint(0, 3))
        perm = [*W.kind_dims(w, kind)] + [e[0] for e in extras]
        rng.shuffle(perm)
        out.append(_wound_case(w, kind, extras, perm, rng.choice(dtypes), "rand"))
    vias = ["memory", "file", "memory", "dask", "memory", "emsopen", "memory"]      # how the dataset is held (viafile.hold)
    for k, c in enumerate(out):
        c["world"] = dict(c["world"], via=vias[k % len(vias)])
        if c["world"]["conv"] in ("cf1d", "cf2d") and k % 2 == 0 and c["world"]["via"] != "emsopen":
            c["world"]["bind"] = "explicit"      # convention made by hand with latitude= / longitude= (worlds.bind)
        if c["world"]["conv"] != "ugrid" and k % 3 == 1 and not c["world"].get("vars"):
            # the dataset's own dimension order is x before y: its first variable is stored (x, y)
            c["world"]["vars"] = [{"name": "flag", "kind": "face", "dims": ["@1", "@0"], "dtype": "i4", "base": 1}]
            c["world"]["first_var"] = "flag"
    return out


def nontrivial(case: dict) -> bool:
    ev = case["events"][0]
    if ev["a"] != "Load" or not ev.get("kind"):
        return False
    gd = case["w"]["G"]["dims"][ev["kind"]]
    dims = ev["arr"]["dims"]
    return len(dims) > len(gd) or dims != gd


def _proj(da: xarray.DataArray) -> dict:
    vals = numpy.asarray(da.values).reshape(-1)
    data = []
    for v in vals.tolist():
        if isinstance(v, float):
            data.append(int(v) if v == int(v) else BADINT)
        elif isinstance(v, int):
            data.append(v)
        else:
            data.append(BADINT)
    return {"dims": [str(d) for d in da.dims], "shape": [int(s) for s in da.shape], "data": data,
            "dtype": da.dtype.str.lstrip("<>=|")}


def execute(case: dict) -> dict:
    w = case["world"]
    from .. import viafile
    ds = viafile.hold_ds(w, W.build(w))
    conv = W.bind(w, ds)
    kind_enum = type(next(iter(conv.grid_kinds)))
    from emsarray import utils
    rec = {"tid": case["tid"], "src": case["src"], "w": case["w"], "events": []}
    cur = None
    lin_name = None
    for e in case["events"]:
        e = dict(e)
        a = e["a"]
        if a == "Load":
            arr = e["arr"]
            cur = xarray.DataArray(numpy.array(arr["data"], dtype=arr["dtype"]).reshape(arr["shape"]), dims=arr["dims"], name="v")
            lin_name = e["lin"] or None
        elif a in ("Ravel", "URavel"):
            name = None if e["name"] == "<default>" else e["name"]
            if a == "Ravel" and e.get("api") == "make_linear":
                res = outcome(lambda: conv.make_linear(cur))
            elif a == "Ravel":
                res = outcome(lambda: conv.ravel(cur, linear_dimension=name))
            else:
                res = outcome(lambda: utils.ravel_dimensions(cur, list(e["dims"]), linear_dimension=name))
            if "ok" in res:
                cur = res["ok"]; res = {"ok": _proj(cur)}
                lin_name = cur.dims[-1] if cur.dims else None
            e["obs"] = res
        elif a in ("Wind", "UWind"):
            if lin_name is None or lin_name not in cur.dims:
                lin_name = cur.dims[-1]
            lin = lin_name
            pos = list(cur.dims).index(lin)
            e["pos"] = pos + 1
            kw = {}
            if e["mode"] == "axis":
                kw["axis"] = pos
            elif e["mode"] == "negaxis":
                kw["axis"] = pos - len(cur.dims)
            elif e["mode"] == "dim":
                kw["linear_dimension"] = lin
            if a == "Wind":
                # (the face grid is every convention's default grid kind: the argument may be left out)
                gk = {} if e.get("omit_kind") else {"grid_kind": kind_enum(e["kind"])}
                res = outcome(lambda: conv.wind(cur, **gk, **kw))
            else:
                res = outcome(lambda: utils.wind_dimension(cur, dimensions=e["dims"], sizes=e["sizes"], linear_dimension=lin))
            if "ok" in res:
                cur = res["ok"]; res = {"ok": _proj(cur)}
                lin_name = None
            e["obs"] = res
        rec["events"].append(e)
    return rec


from .. import viafile as _viafile  # noqa: E402
execute = _viafile.closing(execute)
