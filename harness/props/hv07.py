"""HV07: events recorded from the repository's own tests (harness/harvest_plugin.py), judged by Trace_C07 -- a sub-check
of C07 (thorough tier), reported under C07."""
from __future__ import annotations

from .. import harvest

ID = "HV07"
PARENT = "C07"
TITLE = "repository tests replayed against Trace_C07"
MC = {"quick": [], "thorough": []}
TRACE = ("Trace_C07", "Trace_C07.cfg")
REQUIRED = ["Blur", "Smear"]
MIN_RECORDS = 100
PARALLEL = False
RULE = ("one record = one call of the wrapped public function made by a test of the repository's own suite "
        "(all of tests/ run under the recording plugin; arguments projected before the call, result after); "
        "non-trivial = every recorded call")
ASSUMPTIONS = ["calls whose arguments lie outside the specification's domain (arrays above 6000 elements, non-numeric "
               "data, non-lattice depths) are counted as skipped in the evidence, not judged"]
EXHAUSTIVE = {"quick": False, "thorough": False}
TARGET = "c07"


def cases(tier: str, seed: int) -> list[dict]:
    return harvest.make_cases(TARGET)


def execute(case: dict) -> dict:
    return harvest.execute(case)


def nontrivial(case: dict) -> bool:
    return True


def verify(tier: str, verdict: dict) -> list[str]:
    n = verdict.get("records", 0)
    return [f"only {n} calls recorded from the repository's tests (expected at least {MIN_RECORDS}): the wrappers are not bound"] \
        if n < MIN_RECORDS else []


def extra_evidence(tier, cases, records, verdict) -> dict:
    s = harvest.summary()
    tests = sorted({c.get("test", "") for c in cases})
    harvest.cleanup()
    return {"repo_tests_contributing": len(tests), "skipped_calls": {k: v for k, v in s["skipped"].items() if k.startswith(TARGET + ":")}}
