"""C04  Point lookup returns exactly the lowest-indexed intersecting cell."""
from __future__ import annotations

import random

from .. import cellsdrv as CD, geoworlds as GW, worlds as W

ID = "C04"
TITLE = "Point lookup returns exactly the lowest-indexed intersecting cell"
MC = {"quick": [("MC_Cells", "MC_C04.cfg", 8)], "thorough": [("MC_Cells", "MC_C04_thorough.cfg", 16)]}
TRACE = ("Trace_Cells", "Trace_Cells.cfg")
REPEAT_EVENTS = 6      # see core.check
THOROUGH_EXTRA_SEEDS = 2
REQUIRED = ["held-memory", "held-file", "held-dask", "held-emsopen", "Lookup", "SelectPoint", "holes", "hit", "miss", "tie", "vertex-tie", "beyond-one-leaf",
            "cf1d", "cf2d", "shoc_simple", "shoc_standard", "arakawa", "ugrid"]
RULE = ("one case = one dataset with lattice geometry (holes, skewed and non-convex cells; meshes of 12-60 faces so the "
        "STRtree has several leaves) queried at lattice points chosen from the abstract geometry: every vertex (3-4 way "
        "ties), edge midpoints, cell interiors, hole interiors, just outside and far outside; get_index_for_point and "
        "select_point are recorded; non-trivial = at least one tie or miss point on a dataset with > 1 cell")
ASSUMPTIONS = [
    "membership is decided by exact integer point-in-closed-polygon on the lattice; GEOS agrees with it on exact coordinates",
]
EXHAUSTIVE = {"quick": False, "thorough": False}


def cases(tier: str, seed: int) -> list[dict]:
    rng = random.Random(seed + 4)
    out = []
    worlds = GW.geo_worlds(tier, seed)
    # larger structured grids too (more than one STRtree leaf)
    extra = [GW.structured_world("cf2d", 5, 6, shape="skew", bounds=True, holes=[(2, 2), (0, 5)]),
             GW.structured_world("shoc_standard", 4, 5, shape="skew2", holes=[(1, 1)]),
             GW.structured_world("cf1d", 4, 6, bounds=False, nonuniform=True)]
    # round 13: cells that OVERLAP their neighbours (stored bounds reaching a quarter cell into the next cell, as staggered or
    # nested outputs do): a point on the rim of a lower-indexed cell lies strictly inside a higher-indexed one
    ov = GW.structured_world("cf1d", 2, 3, bounds=True, gap=-6)
    ov["pin_via"] = "memory"; ov["via"] = "memory"
    ov2 = GW.structured_world("cf1d", 3, 3, bounds=True, gap=-6, descending=(True, False))
    ov2["pin_via"] = "file"; ov2["via"] = "file"
    extra += [ov, ov2]
    for w in worlds + extra:
        CD.add_data_vars(w, rng, rich=False)
        pts = GW.probe_points(w, rng, limit=40 if tier == "quick" else 120)
        ev = [{"a": "Lookup", "p": p} for p in pts]
        ev += [{"a": "SelectPoint", "p": p} for p in pts[:: max(1, len(pts) // 8)]]
        out.append({"src": "gen", "world": w, "events": ev})
    for k, c in enumerate(out):
        if k % 2 == 0 and c.get("world") and c["events"]:
            first = next((e for e in c["events"] if "p" in e), None)
            if first:      # (built before the tree used by get_index_for_point is)
                c["events"].insert(0, {"a": "SpatialIndex", "p": first["p"]})
    return out


def nontrivial(case: dict) -> bool:
    w = case["world"]
    return (w["nface"] > 1) if w["conv"] == "ugrid" else (w["ny"] * w["nx"] > 1)


execute = CD.execute_cells
