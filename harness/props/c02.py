"""C02  One linear order is shared by polygons, centres, flattened data and selectors."""
from __future__ import annotations

import random

from .. import cellsdrv as CD, geoworlds as GW, worlds as W

ID = "C02"
TITLE = "One linear order is shared by polygons, centres, flattened data and selectors"
MC = {"quick": [("MC_Cells", "MC_C02.cfg", 8)], "thorough": [("MC_Cells", "MC_C02_thorough.cfg", 16)]}
TRACE = ("Trace_Cells", "Trace_Cells.cfg")
REPEAT_EVENTS = 6      # see core.check
THOROUGH_EXTRA_SEEDS = 2
REQUIRED = ["held-memory", "held-file", "held-dask", "held-emsopen", "Polygons", "Centres", "Ravel", "SelectIndex", "Query", "SpatialIndex", "holes", "hit", "tie",
            "cf1d", "cf2d", "shoc_simple", "shoc_standard", "arakawa", "ugrid",
            "kind-face", "kind-left", "kind-back", "kind-node", "kind-edge"]
RULE = ("one case = one dataset with skewed lattice geometry and tagged variables (grid dimensions in shuffled "
        "positions among t / k / index, every grid kind) on which polygons, face centres, ravel of every gridded "
        "variable, select_index of every cell of every grid kind (sampled on large grids) and strtree queries at lattice "
        "probe points are recorded and compared cell by cell with the single abstract cell function; "
        "non-trivial = skewed or has holes or is a mesh")
ASSUMPTIONS = [
    "centroid fall-back (UGRID without face coordinates) is checked to 1/4 quantum inside the own convex cell only",
    "values are integer tags: 'the value stored at that cell' is decided as tag equality",
]
EXHAUSTIVE = {"quick": False, "thorough": False}


def cases(tier: str, seed: int) -> list[dict]:
    rng = random.Random(seed + 2)
    out = []
    for w in GW.geo_worlds(tier, seed):
        CD.add_data_vars(w, rng)
        ev = [{"a": "Polygons"}, {"a": "Centres"}]
        for v in w["vars"]:
            if v.get("kind") and v["name"] != "ypart":
                ev.append({"a": "Ravel", "var": v["name"]})
        for kind in W.kinds_of(w):
            size = 1
            for s in W.kind_shape(w, kind):
                size *= s
            ns = list(range(size))
            cap = 12 if tier == "quick" else 40
            if len(ns) > cap:
                ns = sorted(rng.sample(ns, cap))
            ev += [dict({"a": "SelectIndex", "n": n, "kind": kind}, **({"api": "unravel_index"} if k % 3 == 2 else {})) for k, n in enumerate(ns)]
            # several cells asked for in one call: position k of the answer is cell ns[k]
            if len(ns) >= 2:
                ev.append({"a": "SelectIndexes", "ns": [ns[-1], ns[0], ns[len(ns) // 2]], "kind": kind, "dim": "req"})
        for p in GW.probe_points(w, rng, limit=25 if tier == "quick" else 60):
            ev.append({"a": "Query", "p": p})
            if len(ev) % 3 == 0:
                ev.append({"a": "SpatialIndex", "p": p})      # the older (deprecated, still public) spatial_index accessor
        out.append({"src": "gen", "world": w, "events": ev})
    # a grid with more cells than a byte can count; cells addressed through native indexes held as narrow integers
    for conv in ("cf2d", "shoc_standard"):
        w = GW.structured_world(conv, 12, 12, shape="rect", **({"bounds": True} if conv == "cf2d" else {}))
        CD.add_data_vars(w, rng, rich=False)
        w["via"] = "memory"
        ns = [0, 5, 100, 127, 128, 129, 131, 143]
        ev = [{"a": "Polygons"}] + [{"a": "SelectIndex", "n": n, "kind": "face", "api": "via_ravel_narrow"} for n in ns]
        out.append({"src": "gen", "world": w, "events": ev})
    return out


def nontrivial(case: dict) -> bool:
    w = case["world"]
    return w["conv"] == "ugrid" or bool(w["geom"].get("holes")) or w["geom"].get("shape") != "rect"


execute = CD.execute_cells


SIGNATURES = {"F21": CD.f21}
