"""C09  Clipped and subsetted datasets remain valid datasets with unchanged geometry."""
from __future__ import annotations

from .. import clipdrv

ID = "C09"
TITLE = "Clipped and subsetted datasets remain valid datasets with unchanged geometry"
MC = {"quick": [("MC_Clip", "MC_C09.cfg", 8)], "thorough": [("MC_Clip", "MC_C09.cfg", 16)]}
TRACE = ("Trace_Clip", "Trace_Clip.cfg")
REQUIRED = ["MakeMask", "Apply", "Clip", "SaveReopen", "via-direct", "via-clip", "obj-1", "obj-2",
            "SelectVariables", "something-dropped", "sup-en", "sup-fe", "sup-ef", "sup-ff", "base-0", "base-1", "coords-coords", "coords-plain",
            "kind-face", "kind-left", "kind-back", "kind-node", "kind-edge",
            "cf1d", "cf2d", "shoc_simple", "shoc_standard", "arakawa", "ugrid"]
RULE = ("one case = one history on one geometry: make_clip_mask for catalogue geometries and buffers, apply to object 1, save "
        "and reopen the result, save the mask to netCDF, reload it, apply it to object 2 (same geometry, every value shifted), "
        "clip in one step; datasets of every convention with float / int-without-fill / int-with-_FillValue / int-with-"
        "missing_value variables on every grid kind with spatial dimensions in shuffled positions; meshes with every subset of "
        "optional connectivity; the loaded result of every step is projected completely; non-trivial = every history")
ASSUMPTIONS = ["values are integer tags; a stored missing value (NaN, or the variable's declared fill) is MISSING",
               "results are .load()ed before the work directory is removed",
               "an integer variable with a declared fill may come back as float after the netCDF round trip; values are compared numerically"]
EXHAUSTIVE = {"quick": False, "thorough": False}
# whole sessions on derived datasets (EmsSystem) are part of the thorough tier of this property
ALSO = {"quick": [], "thorough": ["harness.props.sessions"]}
cases = clipdrv.cases
execute = clipdrv.execute


def nontrivial(case: dict) -> bool:
    return True
