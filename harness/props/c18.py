"""C18  Transects cover exactly the part of the path inside the model, in path order."""
from __future__ import annotations

import random
import sys
import types

import numpy
import xarray

from .. import cellsdrv as CD, geoworlds as GW, worlds as W
from ..project import BADINT, as_int, native_index, outcome
from ..worlds import SCALE

ID = "C18"
TITLE = "Transects cover exactly the part of the path inside the model, in path order"
MC = {"quick": [("MC_C18", "MC_C18.cfg", 8)], "thorough": [("MC_C18", "MC_C18_thorough.cfg", 16)]}
TRACE = ("Trace_C18", "Trace_C18.cfg")
REQUIRED = ["Transect", "FreeTransect", "free-with-segments", "prepared-again", "misses-model", "along-shared-edge", "holes", "starts-inside", "starts-outside", "re-enters-cell",
            "several-vertices", "segments-meet", "bends-inside-cell", "diagonal", "cf1d", "cf2d", "shoc_simple", "shoc_standard", "arakawa", "ugrid"]
RULE = ("one case = one dataset whose cells are axis-aligned lattice rectangles (every convention incl. quad meshes, with holes) "
        "and a batch of seeded polylines of 2-5 vertices on the quarter-cell lattice with axis-parallel or 45-degree segments: "
        "starting / ending inside or outside, crossing holes, leaving and re-entering cells, running along shared cell edges, "
        "missing the model; Transect.segments (cell indexes, end points, distances, listing order) and "
        "prepare_data_array_for_transect are recorded; non-trivial = a path with >= 1 step inside the model")
ASSUMPTIONS = ["the optional cfunits import is replaced by a stand-in module (its system library is absent here)",
               "distances in metres come from cartopy geodesy and are used for order only",
               "GEOS end points are required to be exact lattice points (1e-6 of a quarter cell)",
               "paths are simple (no self-intersection) so that a point determines its path parameter"]
EXHAUSTIVE = {"quick": False, "thorough": False}
UNIT = 6       # quanta per path-lattice unit (a quarter of a 24-quanta cell side)
HIGH_LATITUDE = ("cf1d", "shoc_standard", "ugrid")


def _install_cfunits():
    if "cfunits" not in sys.modules:
        m = types.ModuleType("cfunits")

        class Units:
            def __init__(self, u):
                self.u = u

            def formatted(self):
                return str(self.u)
        m.Units = Units
        sys.modules["cfunits"] = m


def cells_units(w) -> list:
    out = []
    for ring in GW.abstract_polys(w):
        if not ring or (w["conv"] in ("cf2d", "shoc_simple") and [0, 0] and _is_hole(w, len(out))):
            out.append([])
            continue
        xs = [p[0] for p in ring]; ys = [p[1] for p in ring]
        u = w.get("unit", UNIT)
        out.append([min(xs) // u, min(ys) // u, max(xs) // u, max(ys) // u])
    return out


def _is_hole(w, n) -> bool:
    holes = (w.get("geom") or {}).get("holes") or []
    ny, nx = w["ny"], w["nx"]
    return [n // nx, n % nx] in holes


def random_path(rng, bbox, nverts):
    x0, y0, x1, y1 = bbox
    for _ in range(200):
        pts = [(rng.randrange(x0 - 3, x1 + 4), rng.randrange(y0 - 3, y1 + 4))]
        for _ in range(nverts - 1):
            px, py = pts[-1]
            n = rng.randint(1, 9)
            dx, dy = rng.choice([(1, 0), (-1, 0), (0, 1), (0, -1), (1, 1), (1, -1), (-1, 1), (-1, -1)])
            pts.append((px + n * dx, py + n * dy))
        steps = [pts[0]]
        for a, b in zip(pts, pts[1:]):
            n = max(abs(b[0] - a[0]), abs(b[1] - a[1]))
            sx = (b[0] > a[0]) - (b[0] < a[0]); sy = (b[1] > a[1]) - (b[1] < a[1])
            steps += [(a[0] + k * sx, a[1] + k * sy) for k in range(1, n + 1)]
        # two diagonal unit steps of opposite slope cross in the middle of a lattice square without sharing a lattice
        # point: such a path is not simple either
        mids = [(a[0] + b[0], a[1] + b[1]) for a, b in zip(steps, steps[1:]) if a[0] != b[0] and a[1] != b[1]]
        if len(set(mids)) != len(mids):
            continue
        if len(set(steps)) == len(steps) and all(x0 - 6 <= p[0] <= x1 + 6 and y0 - 6 <= p[1] <= y1 + 6 for p in steps):
            return [list(p) for p in pts]
    return [[x0, y0], [x1, y1]] if (x1 - x0) == (y1 - y0) else [[x0, y0], [x1, y0]]


def make_world(conv, rng, gapped=False):
    if conv == "ugrid":
        w = GW.mesh_world(W.mesh_from_squares([["Q", "Q", "N"], ["Q", "Q", "Q"], ["N", "Q", "Q"]], shape="rect"),
                          enc={"base": 0, "fill": "intfill"})
    elif conv == "cf1d" and gapped:
        w = GW.structured_world(conv, 3, 4, bounds=True, gap=6)      # cells that stop one lattice unit short of their neighbours
    elif conv == "cf1d":
        w = GW.structured_world(conv, 3, 4, bounds=True)
    else:
        w = GW.structured_world(conv, 3, 3, shape="rect", bounds=True, holes=[(1, 1)] if conv != "cf2d" else [(0, 2)])
    CD.add_data_vars(w, rng, rich=False)
    # a depth coordinate with a `positive` attribute on dimension k
    for e in w["extras"]:
        if e["name"] == "k":
            e["coord"] = {"name": {"shoc_standard": "z_centre", "shoc_simple": "zc"}.get(conv, "depth"),
                          "values": [-(5 + 10 * i) for i in range(e["size"])], "attrs": {"positive": "up", "units": "m", "long_name": "depth"}}
    return w


def cases(tier: str, seed: int) -> list[dict]:
    rng = random.Random(seed + 18)
    out = []
    for conv in W.ALL_CONVS:
        for rep in range((2 if conv == "cf1d" else 1) if tier == "quick" else 3):
            w = make_world(conv, rng, gapped=(conv == "cf1d" and rep == 1))
            if rep == 0 and conv in HIGH_LATITUDE:
                # the same model at 60 degrees south (a degree of longitude is half a degree of latitude in metres):
                # a multiple of 24 quanta, so the path lattice stays aligned with the cells
                # cells are made eight times larger (3 degrees) first: in this sandbox cartopy 0.25 / PROJ 9.8 put a point
                # 25 km away from itself at that latitude (PlateCarree -> AzimuthalEquidistant), which scrambles the order
                # of distances over anything shorter; metre distances are used for ORDER only
                w = GW.shifted(GW.scaled(w, 8), 9600 - 9600 % 192, -3840)
                w["unit"] = UNIT * 8
            cu = cells_units(w)
            rects = [c for c in cu if c]
            bbox = (min(c[0] for c in rects), min(c[1] for c in rects), max(c[2] for c in rects), max(c[3] for c in rects))
            ev = []
            x0, y0, x1, y1 = bbox
            fixed = [[[x0 - 2, y0 + 2], [x1 + 2, y0 + 2]],                                   # straight through, starts and ends outside
                     [[x0 + 4, y0 - 3], [x0 + 4, y1 + 3]],                                   # along a shared vertical cell edge
                     [[x0 + 2, y0 + 2], [x0 + 6, y0 + 6], [x0 + 6, y0 + 2]],                 # diagonal then back: inside start
                     [[x0 - 5, y0 - 5], [x0 - 3, y0 - 5]],                                   # misses the model
                     [[x0 + 1, y0 + 2], [x0 + 3, y0 + 2], [x0 + 5, y0 + 4], [x0 + 3, y0 + 6], [x0 + 1, y0 + 6], [x0 + 1, y0 + 3]]]  # leaves and re-enters
            # an L and a U shaped path: east-west legs next to north-south legs
            fixed.append([[x0 + 1, y0 + 1], [x1 - 1, y0 + 1], [x1 - 1, y1 - 1]])
            fixed.append([[x0 + 1, y1 - 1], [x0 + 1, y0 + 1], [x1 - 1, y0 + 1], [x1 - 1, y1 - 1]])
            # round 13: zig-zags with two and more bends inside ONE cell before the path leaves it (a finely sampled track over
            # a coarse grid), entering from outside, starting inside, and in the next cell along
            fixed.append([[x0 - 1, y0 + 1], [x0 + 1, y0 + 1], [x0 + 2, y0 + 2], [x0 + 2, y0 + 3], [x0 + 3, y0 + 3], [x0 + 6, y0 + 3]])
            fixed.append([[x0 + 1, y0 + 3], [x0 + 1, y0 + 1], [x0 + 3, y0 + 1], [x0 + 3, y0 + 2], [x0 + 7, y0 + 2]])
            fixed.append([[x0 + 2, y0 + 1], [x0 + 5, y0 + 1], [x0 + 6, y0 + 2], [x0 + 7, y0 + 2], [x0 + 7, y0 + 3], [x0 + 6, y0 + 3], [x0 + 6, y0 + 6]])
            fixed.append([[x1 + 1, y1 - 1], [x1 - 1, y1 - 1], [x1 - 2, y1 - 2], [x1 - 2, y1 - 3], [x1 - 3, y1 - 3], [x1 - 6, y1 - 3]])
            for kp, p in enumerate(fixed):
                ev.append({"a": "Transect", "path": p, "var": "temp" if kp % 2 == 0 else "fort", "shift": 1000 if kp % 3 != 1 else 0})
            for _ in range(6 if tier == "quick" else 30):
                ev.append({"a": "Transect", "path": random_path(rng, bbox, rng.randint(2, 5)), "var": rng.choice(["temp", "fort", ""]), "shift": 0})
            if conv == "cf1d":
                # a path off the lattice: it comes from 470 km away and cuts the outer corner of the last cell by a metre or
                # two.  Only structural clauses apply (the columns that are plotted are the segments, in order).
                g = w["geom"]
                cx = max(max(r) for r in g["xb"]) * SCALE
                cy = max(max(r) for r in g["yb"]) * SCALE
                d = 1e-5
                ev.append({"a": "FreeTransect", "var": "temp", "label": "corner-sliver-far",
                           "pathf": [[cx - d - 3.0, cy + 3.0], [cx + 0.5, cy - d - 0.5]]})
                ev.append({"a": "FreeTransect", "var": "temp", "label": "through-and-sliver",
                           "pathf": [[cx - 0.3, cy - 3.0], [cx - 0.3, cy - 0.2], [cx - d - 0.4, cy + 0.4], [cx + 0.5, cy - d - 0.5]]})
            out.append({"src": "gen", "world": w, "events": ev})
    vias = ["file", "memory", "dask", "emsopen", "memory"]      # how the dataset is held (viafile.hold)
    for k, c in enumerate(out):
        c["world"]["via"] = vias[k % len(vias)]
    return out


def nontrivial(case: dict) -> bool:
    return True


def units_of(x, unit=UNIT) -> int:
    v = float(x) / (unit * SCALE)
    r = round(v)
    return int(r) if abs(v - r) < 1e-6 else BADINT


def execute(case: dict) -> dict:
    _install_cfunits()
    import shapely
    from emsarray.transect import Transect
    w = case["world"]
    from .. import viafile
    ds = viafile.hold_ds(w, W.build(w))
    from ..cellsdrv import snapshot as _snapshot
    _before = _snapshot(ds)
    conv = W.bind(w, ds)
    tw = CD.tlc_world(w, ds)
    tw["cells"] = cells_units(w)
    rec = {"tid": case["tid"], "src": case["src"], "w": tw, "events": []}
    depth_name = next(e["coord"]["name"] for e in w["extras"] if e["name"] == "k")
    for e in case["events"]:
        e = dict(e)

        def run_free():
            line = shapely.LineString([tuple(p) for p in pathf])
            tr = Transect(ds, line, depth=depth_name)
            seglinear = [as_int(s.linear_index) for s in tr.segments]
            td = tr.transect_dataset
            prepared = tr.prepare_data_array_for_transect(ds[e["var"]])
            return {"seglinear": seglinear, "tdlinear": [as_int(v) for v in td["linear_index"].values.tolist()],
                    "nbounds": int(td["distance_bounds"].shape[0]), "ncols": int(prepared.shape[-1])}
        if e["a"] == "FreeTransect":
            pathf = e.pop("pathf")
            e["obs"] = outcome(run_free)
            rec["events"].append(e)
            continue

        def run():
            u = w.get("unit", UNIT)
            line = shapely.LineString([(x * u * SCALE, y * u * SCALE) for x, y in e["path"]])
            tr = Transect(ds, line, depth=depth_name)
            segs = []
            for s in tr.segments:
                segs.append({"linear": as_int(s.linear_index), "native": native_index(w["conv"], s.index),
                             "start": [units_of(s.start_point.x, u), units_of(s.start_point.y, u)],
                             "stop": [units_of(s.end_point.x, u), units_of(s.end_point.y, u)],
                             "d0": int(round(s.start_distance)), "d1": int(round(s.end_distance))})
            out = {"segments": segs}
            td = tr.transect_dataset
            out["tdlinear"] = [as_int(v) for v in td["linear_index"].values.tolist()]
            if e["var"]:
                out["prepared"] = CD.proj_array(e["var"], tr.prepare_data_array_for_transect(ds[e["var"]]))
                if e.get("shift"):
                    # the same Transect object prepares another array of the same name, dimensions and shape (e.g. the next
                    # record of a series), and then the first one again
                    other = (ds[e["var"]] + e["shift"]).rename(e["var"])
                    out["prepared2"] = CD.proj_array(e["var"], tr.prepare_data_array_for_transect(other))
                    out["prepared3"] = CD.proj_array(e["var"], tr.prepare_data_array_for_transect(ds[e["var"]]))
            else:
                out["prepared"] = {"name": "", "dims": [], "shape": [], "data": [1], "dtype": ""}
            return out
        e["obs"] = outcome(run)
        rec["events"].append(e)
    rec["input"] = {"before": _before, "after": _snapshot(ds)}
    return rec


# known finding F9: a path running along an edge shared by two cells is reported by both cells
def _f9(rec: dict, failing: list) -> bool:
    by = {}
    for l, c in failing:
        by.setdefault(l, set()).add(c)
    return all(cs <= {"LengthsAddUp", "DomainSharedEdge"} and ("LengthsAddUp" not in cs or "DomainSharedEdge" in cs) for cs in by.values())


SIGNATURES = {"F9": _f9}


from .. import viafile as _viafile  # noqa: E402
execute = _viafile.closing(execute)
