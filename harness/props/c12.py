"""C12  Ocean floor extraction returns the deepest valid value of every water column."""
from __future__ import annotations

from .. import depthdrv

ID = "C12"
TITLE = "Ocean floor extraction returns the deepest valid value of every water column"
MC = {"quick": [("MC_Depth", "MC_Depth.cfg", 8)], "thorough": [("MC_Depth", "MC_Depth_thorough.cfg", 16)]}
TRACE = ("Trace_Depth", "Trace_Depth.cfg")
THOROUGH_EXTRA_SEEDS = 2
# the repository\'s own tests, recorded by harness/harvest_plugin.py, judged by the same trace specification
ALSO = {"quick": [], "thorough": ["harness.props.hv12"]}
REQUIRED = ["OceanFloor", "via-accessor", "via-function", "two-depth-coordinates", "dry-column", "attr-withheld",
            "cf1d", "cf2d", "shoc_simple", "shoc_standard", "arakawa", "ugrid"]
RULE = ("one case = one dataset (every convention) with one or two depth coordinates of different length (every orientation "
        "and sign) and a static sea floor (per cell 0..all layers wet, some gaps, one all-dry and one all-wet column) shared by "
        "the variables of a group, the depth dimension in shuffled positions, optionally normalised first, then reduced by "
        "ocean_floor (function and accessor); non-trivial = every case")
ASSUMPTIONS = ["static sea floor: variables of a group share the validity pattern and it does not vary in time (the property's quantifier)",
               "the accessor path needs a time coordinate; generated datasets have one"]
EXHAUSTIVE = {"quick": False, "thorough": False}


def cases(tier, seed):
    return depthdrv.cases(tier, seed, kinds=("floor",))


execute = depthdrv.execute


def nontrivial(case):
    return True
