"""C13  Depth normalisation reorients coordinates and data together, idempotently."""
from __future__ import annotations

from .. import depthdrv

ID = "C13"
TITLE = "Depth normalisation reorients coordinates and data together, idempotently"
MC = {"quick": [("MC_Depth", "MC_Depth.cfg", 8)], "thorough": [("MC_Depth", "MC_Depth_thorough.cfg", 16)]}
TRACE = ("Trace_Depth", "Trace_Depth.cfg")
THOROUGH_EXTRA_SEEDS = 2
# the repository\'s own tests, recorded by harness/harvest_plugin.py, judged by the same trace specification
ALSO = {"quick": [], "thorough": ["harness.props.hv13"]}
REQUIRED = ["Normalize", "pd-none", "pd-yes", "pd-no", "d2s-none", "d2s-yes", "d2s-no", "via-accessor", "via-function",
            "data-reversed", "attr-withheld", "with-bounds", "saved-after-normalisation", "Save", "two-depth-coordinates", "two-coordinates-one-dimension", "sediment-depth-coordinates",
            "cf1d", "cf2d", "shoc_simple", "shoc_standard", "arakawa", "ugrid"]
RULE = ("one case = one dataset (every convention) with one or two depth coordinates (2-6 levels, positive up / down, deep-to-"
        "shallow / shallow-to-deep, positive attribute present or withheld, with / without bounds, dimension coordinate or not) "
        "and tagged variables with the depth dimension in shuffled positions, driven through histories of "
        "normalize_depth_variables calls (function and accessor) covering all 9 option combinations, each repeated; result AND "
        "input are projected after every call; non-trivial = every history")
ASSUMPTIONS = ["when the positive attribute is withheld the values are such that the documented guess is right",
               "depth values are integers so sign flips are exact"]
EXHAUSTIVE = {"quick": False, "thorough": False}


def cases(tier, seed):
    return depthdrv.cases(tier, seed, kinds=("norm",))


execute = depthdrv.execute


def nontrivial(case):
    return True
