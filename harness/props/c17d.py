"""C17D: datasets DERIVED by depth normalisation (sign / order changed, coordinate stored in a narrower type than its
bounds, held in a file), saved with the EMS fixes and read back, judged by Trace_Depth (clause SavedAsHeld) -- a sub-check of
C17, reported under C17."""
from __future__ import annotations

from .. import depthdrv

ID = "C17D"
PARENT = "C17"
TITLE = "normalised datasets saved and read back hold what they held"
MC = {"quick": [], "thorough": []}
TRACE = ("Trace_Depth", "Trace_Depth.cfg")
REQUIRED = ["Save", "saved-after-normalisation", "Normalize"]
RULE = ("one case = one dataset whose depth coordinate is stored as bytes with bounds stored as doubles, reopened from a file; "
        "saved as it stands, normalised with a change of sign and saved, normalised back with the order reversed and saved; "
        "after every save the file is read back and projected completely; non-trivial = every case")
ASSUMPTIONS = ["depth values are integers so sign flips are exact"]
EXHAUSTIVE = {"quick": False, "thorough": False}


def cases(tier, seed):
    out = [c for c in depthdrv.cases(tier, seed, kinds=("norm",)) if any(e["a"] == "Save" for e in c["events"])]
    for k, c in enumerate(out):
        c["tid"] = k + 1
    return out


execute = depthdrv.execute


def nontrivial(case):
    return True
