"""C14  Triangulation exactly partitions every cell polygon."""
from __future__ import annotations

import random

from .. import cellsdrv as CD, geoworlds as GW, worlds as W
from ..project import as_int, outcome
from ..worlds import f2q

ID = "C14"
TITLE = "Triangulation exactly partitions every cell polygon"
MC = {"quick": [("MC_C14", "MC_C14.cfg", 8)], "thorough": [("MC_C14", "MC_C14_thorough.cfg", 16)]}
TRACE = ("Trace_C14", "Trace_C14.cfg")
THOROUGH_EXTRA_SEEDS = 2
REQUIRED = ["FreeTriangulate", "Triangulate", "holes", "concave", "collinear", "clockwise", "anticlockwise", "sides-3", "sides-4", "sides-6", "sides-8",
            "cf1d", "cf2d", "shoc_simple", "shoc_standard", "arakawa", "ugrid"]
RULE = ("one case = one dataset: structured grids of every convention with holes, and lattice meshes mixing triangles, quads, "
        "2x1 hexagons with collinear vertices, L-shaped concave hexagons / octagons, clockwise and anticlockwise winding, any "
        "start vertex (family + seeded random meshes to ~60 faces), plus hand-made faces with 5 and 7 sides; triangulate_dataset's "
        "vertices / triangles / cell indices are recorded; non-trivial = a mesh or a grid with holes")
ASSUMPTIONS = ["exact lattice coordinates; the predicate decides the output, it does not predict the particular triangulation"]
EXHAUSTIVE = {"quick": False, "thorough": False}

EXTRA_FACES = [
    # pentagon (house), heptagon with a reflex vertex, concave quad (dart), clockwise pentagon
    [[(0, 0), (2, 0), (2, 1), (1, 2), (0, 1)], [(2, 0), (4, 0), (4, 2), (3, 1), (2, 1)], [(0, 1), (1, 2), (0, 3)]],
    [[(0, 0), (3, 0), (3, 3), (2, 3), (2, 1), (1, 1), (0, 3)], [(3, 0), (5, 0), (4, 1), (5, 2), (3, 3)]],
    [[(0, 0), (2, 1), (4, 0), (2, 3)], [(0, 0), (2, 3), (0, 3)], [(4, 0), (4, 3), (2, 3)]],
    # L-shaped octagon with collinear vertices next to a quad and a 2x1 hexagon
    [[(0, 0), (1, 0), (2, 0), (2, 1), (1, 1), (1, 2), (0, 2), (0, 1)], [(1, 1), (2, 1), (2, 2), (1, 2)],
     [(2, 0), (3, 0), (4, 0), (4, 1), (3, 1), (2, 1)]],
]


def cases(tier: str, seed: int) -> list[dict]:
    rng = random.Random(seed + 14)
    out = []
    worlds = GW.geo_worlds(tier, seed)
    for k, faces in enumerate(EXTRA_FACES):
        for rev in (False, True):
            fs = [f[::-1] if rev else f for f in faces]
            worlds.append(GW.mesh_world(W.mesh_from_faces(fs, shape=["rect", "skew"][k % 2]), enc={"base": 0, "fill": "intfill"}))
    for w in worlds:
        CD.add_data_vars(w, rng, rich=False)
        out.append({"src": "gen", "world": w, "events": [{"a": "Triangulate"}]})
    # meshes off the lattice: node coordinates in tenths of a degree next to the origin (decimal fractions, not exactly
    # representable), with concave faces and faces with collinear vertices; judged structurally (FreeStructure)
    for k, faces in enumerate(EXTRA_FACES):
        for rev, (div, offx, offy) in ((False, (3.0, -0.41, 0.11)), (True, (3.0, 1.7, 0.11)), (False, (7.0, 0.03, -0.41)), (True, (3.0, -0.41, 0.11))):
            fs = [f[::-1] if rev else f for f in faces]
            w = GW.mesh_world(W.mesh_from_faces(fs, shape="rect"), enc={"base": k % 2, "fill": "intfill"})
            CD.add_data_vars(w, rng, rich=False)
            w["decimal"] = [div, offx, offy]
            w["via"] = "memory"
            out.append({"src": "gen", "world": w, "events": [{"a": "FreeTriangulate"}]})
    return out


def nontrivial(case: dict) -> bool:
    w = case["world"]
    return w["conv"] == "ugrid" or bool(w["geom"].get("holes"))


def execute(case: dict) -> dict:
    from emsarray.operations.triangulate import triangulate_dataset
    w = case["world"]
    from .. import viafile
    ds = viafile.hold_ds(w, W.build(w))
    from ..cellsdrv import snapshot as _snapshot
    _before = _snapshot(ds)
    if w.get("decimal"):
        # the same mesh with its node coordinates in tenths of a degree: x / 120 quanta, shifted next to the origin
        import numpy
        nx_ = numpy.asarray(ds["Mesh2_node_x"].values, dtype=float); ny_ = numpy.asarray(ds["Mesh2_node_y"].values, dtype=float)
        from ..worlds import SCALE
        div, offx, offy = w["decimal"]
        def units(a):
            q = numpy.round(a / SCALE); q = q - q.min()
            step = min(d for d in numpy.diff(numpy.unique(q)) if d > 0)
            return numpy.round(q / step)
        ds["Mesh2_node_x"] = (ds["Mesh2_node_x"].dims, units(nx_) / div + offx, dict(ds["Mesh2_node_x"].attrs))
        ds["Mesh2_node_y"] = (ds["Mesh2_node_y"].dims, units(ny_) / div + offy, dict(ds["Mesh2_node_y"].attrs))
        W.bind(w, ds)
        rec = {"tid": case["tid"], "src": case["src"], "w": CD.tlc_world(w, ds), "events": []}

        def free():
            v, t, c = triangulate_dataset(ds)
            return {"nv": int(len(v)), "triangles": [[as_int(i) for i in row] for row in numpy.asarray(t).tolist()],
                    "cells": [as_int(i) for i in numpy.asarray(c).tolist()]}
        rec["events"].append({"a": "FreeTriangulate", "obs": outcome(free)})
        return rec
    W.bind(w, ds)
    rec = {"tid": case["tid"], "src": case["src"], "w": CD.tlc_world(w, ds), "events": []}

    def tri():
        v, t, c = triangulate_dataset(ds)
        return {"vertices": [[f2q(x), f2q(y)] for x, y in v.tolist()],
                "triangles": [[as_int(i) for i in row] for row in t.tolist()],
                "cells": [as_int(i) for i in c.tolist()]}
    rec["events"].append({"a": "Triangulate", "obs": outcome(tri)})
    # ... and again, of a second dataset object sharing the first one's arrays (with its own convention object)
    ds_first = ds
    ds = ds_first.copy(deep=False)
    W.bind(w, ds)
    rec["events"].append({"a": "Triangulate", "on": "shallow-copy", "obs": outcome(tri)})
    ds = ds_first
    rec["input"] = {"before": _before, "after": _snapshot(ds)}
    return rec


def _f16(rec: dict, failing: list) -> bool:
    """CF 2-D grid without stored bounds whose synthesised ring repeats a vertex (TLC's DomainRepeatedVertex marker)
    and triangulate_dataset raised ValueError"""
    clauses = {c for _, c in failing}
    w = rec["w"]
    return ("DomainRepeatedVertex" in clauses and w["conv"] in ("cf2d", "shoc_simple") and "xb" not in w["geom"]
            and rec["events"][0]["obs"].get("err") == "ValueError")


SIGNATURES = {"F16": _f16}


from .. import viafile as _viafile  # noqa: E402
execute = _viafile.closing(execute)
