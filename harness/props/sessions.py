"""Whole sessions against the composed specification EmsSystem (serves C09 / C08 / C11 beyond single operations):
TLC emits behaviours of spec/EmsSystem.tla for a base world (exhaustive BFS is infeasible, `-simulate` is used), the driver
replays each on real datasets, Trace_System validates every step."""
from __future__ import annotations

import json
import os
import random
import re
import shutil

import numpy
import xarray

from .. import cellsdrv as CD, clipdrv, geoworlds as GW, tlc, worlds as W
from ..project import outcome, polygon_vertices
from ..worlds import SCALE

ID = "SYS"
TITLE = "Sessions over derived datasets compose (EmsSystem)"
BASEDIR = tlc.SPEC / "bases"
BASES = ["cf1d", "cf2d", "shoc_simple", "shoc_standard", "ugrid"]
# one complete model-checking run of the composed machine per base world (the base is read from spec/bases/<conv>.tlc.json,
# the very file the session driver concretises)
MC = {"quick": [("MC_System", "MC_System.cfg", 4, {"SYS_BASE": str(BASEDIR / f"{c}.tlc.json")}) for c in ("cf2d", "ugrid")],
      "thorough": [("MC_System", "MC_System_thorough.cfg", 8, {"SYS_BASE": str(BASEDIR / f"{c}.tlc.json")}) for c in BASES]}
TRACE = ("Trace_System", "Trace_System.cfg")
REQUIRED = ["Access", "Copy", "MakeMask", "SaveMask", "LoadMask", "ApplyMask", "SelectVariables", "Mutate", "Save", "Open",
            "Query", "SelectCell", "Triangulate", "triangulate-derived", "Export", "export-derived", "Extract", "extract-error", "extract-drop", "extract-fill", "extract-with-miss",
            "extract-on-derived", "extract-after-mutation", "query-clipped-away", "query-on-derived", "cell-of-derived",
            "derived-view", "clip-of-clip", "clip-after-mutation", "reopen-clipped", "mask-reloaded", "mask-on-other-dataset"]
RULE = ("one case = one behaviour of spec/EmsSystem.tla (depth 8, TLC -simulate) on a base dataset of a detectable convention: "
        "access / copy / make mask (points strictly inside the chosen cells) / save + load mask / apply to any dataset with the "
        "same cell layout / select variables / modify in place / save / reopen, freely interleaved on derived datasets; after "
        "every action the produced or touched dataset is projected completely (detected convention, polygon per position, every "
        "face variable) together with the convention bound to every live dataset; non-trivial = behaviours with a derived view")
ASSUMPTIONS = ["plain ArakawaC is not auto-detectable and is not used as a session base",
               "polygons are observed through an unbound convention object so that observing does not bind anything"]
EXHAUSTIVE = {"quick": False, "thorough": False}
def base_world(conv: str, rng: random.Random) -> dict:
    if conv == "ugrid":
        w = GW.mesh_world(W.mesh_from_squares([["Q", "A", "Q"], ["B", "Q", "N"]], shape="skew"), enc={"base": 1, "fill": "intfill"})
    elif conv == "cf1d":
        w = GW.structured_world(conv, 2, 3, bounds=True)
    elif conv == "shoc_standard":
        w = GW.structured_world(conv, 2, 3, shape="skew", coords_as="plain")
    else:
        w = GW.structured_world(conv, 2, 3, shape="skew", bounds=True, coords_as="plain" if conv == "cf2d" else "coords")
    # (a single depth layer on three of the bases: a dimension of length 1 has to survive every derivation and selection)
    CD.add_data_vars(w, rng, rich=False, ksize=1 if conv in ("cf2d", "shoc_standard", "ugrid") else 2)
    return w


def tlc_base(w: dict, ds) -> dict:
    tw = CD.tlc_world(w, ds)
    for tv, v in zip(tw["vars"], w["vars"]):
        tv["fillkind"] = clipdrv.fillkind(v)
    tw["convclass"] = {"cf1d": "CFGrid1D", "cf2d": "CFGrid2D", "shoc_simple": "ShocSimple",
                       "shoc_standard": "ShocStandard", "ugrid": "UGrid"}[w["conv"]]
    return tw


def emit_sessions(base_file: str, n: int, seed: int) -> list[dict]:
    out = []
    meta = tlc._metadir("SYS-gen")
    args = ["tlc", "-workers", "1", "-metadir", str(meta), "-noGenerateSpecTE", "-config", "Gen_System.cfg",
            "-simulate", f"num={n}", "-depth", "10", "-seed", str(seed + 7), "MC_System.tla"]
    rc, text, _ = tlc._run(args, env={"SYS_BASE": base_file}, timeout=900)
    shutil.rmtree(meta, ignore_errors=True)
    for m in re.finditer(r'<<"CASE", "(.*)">>', text):
        out.append(json.loads(m.group(1).encode().decode("unicode_escape")))
    if not out:
        raise tlc.MachineryError("no sessions emitted\n" + text[-2000:])
    return out


def cases(tier: str, seed: int) -> list[dict]:
    rng = random.Random(seed + 77)
    out = []
    work = tlc.WORK / "SYS"
    work.mkdir(parents=True, exist_ok=True)
    for conv in BASES:
        w = json.loads((BASEDIR / f"{conv}.world.json").read_text())
        bf = BASEDIR / f"{conv}.tlc.json"
        seen = set()
        nf = W.kind_shape(w, "face")
        ncell = nf[0] * (nf[1] if len(nf) > 1 else 1)
        valid = [n for n in range(ncell) if GW.abstract_polys(w)[n]]
        names = [v["name"] for v in w["vars"]]
        fixed = [
            # mask saved, reloaded, applied to a copy; the clipped result clipped again; saved and reopened
            {"hist": [{"a": "MakeMask", "obj": 1, "F": valid[:3]}, {"a": "SaveMask", "mask": 1}, {"a": "LoadMask", "file": 1},
                      {"a": "Copy", "obj": 1}, {"a": "Mutate", "obj": 2, "k": 1}, {"a": "ApplyMask", "obj": 2, "mask": 2},
                      {"a": "MakeMask", "obj": 3, "F": valid[:2]}, {"a": "ApplyMask", "obj": 3, "mask": 3},
                      {"a": "Save", "obj": 4}, {"a": "Open", "file": 2}, {"a": "Access", "obj": 5}, {"a": "Access", "obj": 1},
                      {"a": "Query", "obj": 3, "cell": valid[0]}, {"a": "Query", "obj": 3, "cell": valid[-1]},
                      {"a": "Query", "obj": 5, "cell": valid[1]}, {"a": "SelectCell", "obj": 4, "pos": 1},
                      {"a": "SelectCell", "obj": 1, "pos": 2},
                      {"a": "Extract", "obj": 3, "cells": [valid[0], valid[-1], valid[1]], "policy": "drop"},
                      {"a": "Extract", "obj": 3, "cells": [valid[-1], valid[1], valid[0]], "policy": "error"},
                      {"a": "Extract", "obj": 4, "cells": [valid[2], valid[0], valid[-1]], "policy": "fill"},
                      {"a": "Extract", "obj": 1, "cells": [valid[-1], valid[0]], "policy": "error"},
                      {"a": "Triangulate", "obj": 4}, {"a": "Triangulate", "obj": 1},
                      {"a": "Export", "obj": 3}, {"a": "Export", "obj": 5}, {"a": "Export", "obj": 1}]},
            # select variables, then clip the subset with a mask made on the original
            {"hist": [{"a": "SelectVariables", "obj": 1, "names": names[:1]}, {"a": "MakeMask", "obj": 1, "F": valid[-2:]},
                      {"a": "ApplyMask", "obj": 2, "mask": 1}, {"a": "Access", "obj": 2}, {"a": "Copy", "obj": 3},
                      {"a": "Save", "obj": 3}, {"a": "Open", "file": 1}, {"a": "MakeMask", "obj": 5, "F": valid[-1:]},
                      {"a": "ApplyMask", "obj": 5, "mask": 2}]},
        ]
        emitted = emit_sessions(str(bf), 30 if tier == "quick" else 200, seed)
        rng.shuffle(emitted)
        for b in fixed + emitted[: (25 if tier == "quick" else 400)]:
            key = json.dumps(b, sort_keys=True)
            if key in seen:
                continue
            seen.add(key)
            # the base dataset of the session is held in memory / reopened lazily from a file / dask-backed (emsarray.open_dataset would bind it, which the machine models as Access)
            out.append({"src": "mc", "world": dict(w, via=["memory", "file", "dask"][len(out) % 3]), "events": b["hist"]})
    return out


def nontrivial(case: dict) -> bool:
    return any(e["a"] in ("ApplyMask", "SelectVariables", "Open") for e in case["events"])


def interior_point(ring):
    n = len(ring)
    sx = sum(p[0] for p in ring); sy = sum(p[1] for p in ring)
    if n == 4:
        return (sx / 4, sy / 4)
    a, b, c = ring[0], ring[1], ring[2]
    return ((2 * a[0] + b[0] + c[0]) / 4, (2 * a[1] + b[1] + c[1]) / 4)


def view_of(w, ds) -> dict:
    """projection of a dataset WITHOUT binding anything to it"""
    import emsarray
    cls = emsarray.get_dataset_convention(ds)
    specs = {v["name"]: v for v in w["vars"]}
    out = {"conv": cls.__name__ if cls is not None else "None"}

    def polys():
        return [polygon_vertices(p) for p in cls(ds).polygons]
    out["polys"] = outcome(polys) if cls is not None else {"err": "undetected"}
    vars_ = []
    for n in ds.data_vars:
        if n in specs:
            a = CD.proj_array(n, ds[n])
            a["data"] = clipdrv.proj_var_values(specs[n], ds[n])
            vars_.append(a)
    out["vars"] = vars_
    out["names"] = sorted(str(n) for n in ds.data_vars)
    return out


def execute(case: dict) -> dict:
    import shapely
    from emsarray.state import State
    w = case["world"]
    work = tlc.WORK / "SYS" / f"run-{os.getpid()}-{case['tid']}"
    if work.exists():
        shutil.rmtree(work)
    work.mkdir(parents=True)
    try:
        from .. import viafile
        held = viafile.hold(w, W.build(w))
        ds0 = held.ds
        rec = {"tid": case["tid"], "src": case["src"], "w": tlc_base(w, ds0), "events": []}
        rings = GW.abstract_polys(w)
        objs = [ds0]
        masks: list = []
        files: list = []
        convs: list = []
        ids: dict = {}

        def conv_id(c) -> int:
            if c is None:
                return 0
            if id(c) not in ids:
                convs.append(c); ids[id(c)] = len(convs)
            return ids[id(c)]
        for k, e in enumerate(case["events"]):
            e = dict(e)
            a = e["a"]
            obs: dict = {"ok": True, "subject": e.get("obj", 1), "conv": 0}
            try:
                if a == "Access":
                    obs["conv"] = conv_id(objs[e["obj"] - 1].ems)
                elif a == "Copy":
                    objs.append(objs[e["obj"] - 1].copy()); obs["subject"] = len(objs)
                elif a == "MakeMask":
                    d = objs[e["obj"] - 1]
                    conv_id(d.ems)
                    pts = [interior_point(rings[n]) for n in e["F"]]
                    geom = shapely.MultiPoint([(x * SCALE, y * SCALE) for x, y in pts])
                    masks.append(d.ems.make_clip_mask(geom, buffer=0))
                elif a == "SaveMask":
                    p = work / f"mask{k}.nc"
                    masks[e["mask"] - 1].to_netcdf(p); files.append(p); obs["subject"] = 1
                elif a == "LoadMask":
                    masks.append(xarray.open_dataset(files[e["file"] - 1]).load()); obs["subject"] = 1
                elif a == "ApplyMask":
                    d = objs[e["obj"] - 1]
                    conv_id(d.ems)
                    wd = work / f"work{k}"; wd.mkdir()
                    r = d.ems.apply_clip_mask(masks[e["mask"] - 1], wd).load()
                    r.close()
                    objs.append(r); obs["subject"] = len(objs)
                elif a == "SelectVariables":
                    d = objs[e["obj"] - 1]
                    conv_id(d.ems)
                    objs.append(d.ems.select_variables(list(e["names"]))); obs["subject"] = len(objs)
                elif a == "Mutate":
                    d = objs[e["obj"] - 1]
                    for v in w["vars"]:
                        if v["name"] in d.data_vars:
                            old = d[v["name"]]
                            d[v["name"]] = (old + numpy.asarray(e["k"], dtype=old.dtype)).astype(old.dtype).assign_attrs(old.attrs)
                elif a == "Save":
                    d = objs[e["obj"] - 1]
                    conv_id(d.ems)
                    p = work / f"ds{k}.nc"
                    d.ems.to_netcdf(p); files.append(p)
                elif a == "Query":
                    d = objs[e["obj"] - 1]
                    conv_id(d.ems)
                    x, y = interior_point(rings[e["cell"]])
                    hit = d.ems.get_index_for_point(shapely.Point(x * SCALE, y * SCALE))
                    obs["answer"] = -1 if hit is None else int(hit.linear_index)
                elif a == "SelectCell":
                    d = objs[e["obj"] - 1]
                    conv_id(d.ems)
                    r = d.ems.select_index(d.ems.wind_index(e["pos"] - 1))
                    specs = {v["name"]: v for v in w["vars"]}
                    cell = []
                    for n in r.data_vars:
                        if n in specs:
                            a_ = CD.proj_array(n, r[n])
                            a_["data"] = clipdrv.proj_var_values(specs[n], r[n])
                            cell.append(a_)
                    obs["cell"] = cell
                elif a == "Export":
                    d = objs[e["obj"] - 1]
                    conv_id(d.ems)
                    r_ = CD.export_features(w, d, "geojson", str(work / f"export{k}" / "cells.geojson"))
                    obs["features"] = [{"linear": f["linear"], "coords": f["coords"]} for f in r_["features"]]
                elif a == "Triangulate":
                    from emsarray.operations.triangulate import triangulate_dataset
                    from ..project import as_int
                    d = objs[e["obj"] - 1]
                    conv_id(d.ems)
                    vs, ts, cs = triangulate_dataset(d)
                    obs["tri"] = {"vertices": [[CD.f2q(x), CD.f2q(y)] for x, y in numpy.asarray(vs).tolist()],
                                  "triangles": [[as_int(i) for i in row] for row in numpy.asarray(ts).tolist()],
                                  "cells": [as_int(i) for i in numpy.asarray(cs).tolist()]}
                elif a == "Extract":
                    import pandas
                    from emsarray.operations import point_extraction
                    d = objs[e["obj"] - 1]
                    conv_id(d.ems)
                    pts = [interior_point(rings[n]) for n in e["cells"]]
                    try:
                        if e["policy"] == "fill":
                            df = pandas.DataFrame({"lon": [x * SCALE for x, _ in pts], "lat": [y * SCALE for _, y in pts]})
                            r = point_extraction.extract_dataframe(d, df, ("lon", "lat"), missing_points="fill")
                        else:
                            r = point_extraction.extract_points(d, [shapely.Point(x * SCALE, y * SCALE) for x, y in pts],
                                                                missing_points=e["policy"])
                    except point_extraction.NonIntersectingPoints as ex:
                        obs["indices"] = [int(i) for i in ex.indexes]
                        raise
                    specs = {v["name"]: v for v in w["vars"]}
                    rows_ = []
                    for n in r.data_vars:
                        if n in specs:
                            a_ = CD.proj_array(n, r[n])
                            a_["data"] = clipdrv.proj_var_values(specs[n], r[n])
                            rows_.append(a_)
                    obs["rows"] = rows_
                    obs["labels"] = [int(x) for x in r["point"].values.tolist()]
                elif a == "Open":
                    r = xarray.open_dataset(files[e["file"] - 1]).load(); r.close()
                    objs.append(r); obs["subject"] = len(objs)
            except Exception as ex:
                obs["ok"] = False
                obs["error"] = type(ex).__name__
            subj = objs[min(obs["subject"], len(objs)) - 1]
            obs["view"] = view_of(w, subj)
            obs["bound"] = [conv_id(State.get(d).convention) for d in objs]
            e["obs"] = obs
            if "F" in e:
                e["F"] = sorted(e["F"])
            if "names" in e:
                e["names"] = sorted(e["names"])
            if a == "Export":
                obs.setdefault("features", [])
            if a == "Triangulate":
                obs.setdefault("tri", {"vertices": [], "triangles": [], "cells": []})
            if a == "Extract":
                obs.setdefault("indices", []); obs.setdefault("rows", []); obs.setdefault("labels", []); obs.setdefault("error", "")
            rec["events"].append(e)
        return rec
    finally:
        try:
            held.close()
        except NameError:
            pass
        shutil.rmtree(work, ignore_errors=True)
