"""C01  Native and linear indexes form a bijection on every grid."""
from __future__ import annotations

import json
import random

from .. import tlc, worlds as W
from ..project import as_int, kind_name, native_index, outcome

ID = "C01"
TITLE = "Native and linear indexes form a bijection on every grid"
MC = {
    "quick": [("MC_C01", "MC_C01.cfg", 8)],
    "thorough": [("MC_C01", "MC_C01_thorough.cfg", 16)],
}
TRACE = ("Trace_C01", "Trace_C01.cfg")
THOROUGH_EXTRA_SEEDS = 2
RULE = ("one case = one dataset (convention, grid shape / mesh, edge-dimension mode) with the complete "
        "wind_index / ravel_index tables over every grid kind plus a margin of out-of-range probes; "
        "structured worlds are emitted by TLC from MC_C01!Worlds, meshes come from the lattice mesh family, "
        "random larger shapes are seeded; non-trivial = non-square, or 1xN / Nx1, or a mesh")
ASSUMPTIONS = [
    "dimension sizes are taken from generated datasets; coordinates are filler for this property",
    "an exception of any class counts as 'rejected with an error'",
]
EXHAUSTIVE = {"quick": False, "thorough": False}
MARGIN = 2


def _emit_worlds(maxdim: int) -> list[dict]:
    out = tlc.WORK / "C01" / "worlds.ndjson"
    out.parent.mkdir(parents=True, exist_ok=True)
    tlc.eval_assume("Gen_C01", "Gen_C01.cfg", {"CASES_FILE": str(out), "GEN_MAXDIM": maxdim}, tag="C01-gen")
    ws = [json.loads(line) for line in out.read_text().splitlines() if line.strip()]
    out.unlink()
    return ws


def _events(w: dict, margin: int, idt: str = "") -> list[dict]:
    ev = [{"a": "GridSize"}, {"a": "Kinds"}]
    for kind in W.kinds_of(w):
        shape = W.kind_shape(w, kind)
        size = 1
        for s in shape:
            size *= s
        for n in range(-margin, size + margin):
            ev.append({"a": "Wind", "kind": kind, "n": n})
        if kind == "face":
            for n in range(-1, size + 1):
                ev.append({"a": "WindDefault", "n": n})
        # the older (deprecated, still public) name of wind_index, and what the convention says about a variable on this grid
        for n in (-1, 0, size // 2, size - 1, size):
            ev.append({"a": "Wind", "kind": kind, "n": n, "api": "unravel_index"})
        ev.append({"a": "KindOf", "kind": kind, "extra": True})
        ev.append({"a": "KindOf", "kind": kind, "extra": False})
        import itertools
        for idx in itertools.product(*[range(-margin, s + margin) for s in shape]):
            nat = list(idx) if w["conv"] in ("cf1d", "cf2d", "shoc_simple") else [kind] + list(idx)
            ev.append(dict({"a": "Ravel", "native": nat}, **({"idt": idt} if idt else {})))
    return ev


def _mesh_world(cells, edge_mode, rng=None, mesh=None) -> dict:
    m = mesh or W.mesh_from_squares(cells)
    edges = W.mesh_edges(m["faces"])
    m["edges"] = [list(e) for e in edges]
    enc = {"edge_dim": "absent", "supplied": []}
    if edge_mode == "implied":
        enc = {"edge_dim": "implied", "supplied": ["en"]}
    elif edge_mode == "declared":
        enc = {"edge_dim": "declared", "supplied": ["en"]}
    elif edge_mode == "implied-coords":      # the edge table is flagged as a coordinate variable; nothing declares the dimension
        enc = {"edge_dim": "implied", "supplied": ["en"], "conn_as_coords": ["Mesh2_edge_nodes"]}
    elif edge_mode == "declared-transposed":      # connectivity stored (Two, edge): only the attribute names the edge dimension
        enc = {"edge_dim": "declared", "supplied": ["en"], "transposed": True}
    w = W.counts_world("ugrid", nface=len(m["faces"]), nnode=len(m["nodes"]),
                       nedge=len(edges) if edge_mode != "absent" else -1)
    w["mesh"] = m
    w["enc"] = enc
    return w


def _x_first(w: dict) -> dict:
    """the same world concretised with a first variable stored (x, y): the dataset's own dimension order is x before y"""
    w = dict(w)
    w["vars"] = [{"name": "flag", "kind": "face", "dims": ["@1", "@0"], "dtype": "i4", "base": 1}]
    w["first_var"] = "flag"
    return w


def cases(tier: str, seed: int) -> list[dict]:
    rng = random.Random(seed)
    out = []
    maxdim = 3 if tier == "quick" else 5
    for w in _emit_worlds(maxdim):
        w = dict(w)
        out.append({"src": "mc", "w": w, "events": _events(w, MARGIN)})
        if w["conv"] != "ugrid" and w["ny"] != w["nx"]:
            out.append({"src": "mc", "w": _x_first(w), "events": _events(w, MARGIN)})
    # meshes of the lattice family, each with the three edge-dimension modes
    fam = [[["Q"]], [["A"]], [["Q", "B"]], [["Q", "A"], ["N", "Q"]], [["A", "B"], ["B", "Q"]], [["H", "h"], ["Q", "N"]]]
    for cells in fam:
        for mode in ("absent", "implied", "declared", "declared-transposed", "implied-coords"):
            w = _mesh_world(cells, mode)
            out.append({"src": "mc", "w": w, "events": _events(w, MARGIN)})
    # seeded larger scenarios outside the TLC universe
    nrand = 12 if tier == "quick" else 120
    for _ in range(nrand):
        conv = rng.choice(W.STRUCTURED)
        ny, nx = rng.randint(1, 7), rng.randint(1, 9)
        w = W.counts_world(conv, ny=ny, nx=nx)
        if rng.random() < .5:
            w = _x_first(w)
        out.append({"src": "rand", "w": w, "events": _events(w, 3)})
    for _ in range(nrand // 2):
        m = W.random_mesh(rng, rng.randint(2, 7), rng.randint(2, 6))
        w = _mesh_world(None, rng.choice(["absent", "implied", "declared", "declared-transposed"]), mesh=m)
        out.append({"src": "rand", "w": w, "events": _events(w, 3)})
    # grids with more cells than a byte can count, native indexes given as narrow numpy integers (as read from a table of
    # stations stored as bytes / shorts)
    for conv, ny, nx, idt in (("cf2d", 12, 16, "int8"), ("shoc_standard", 9, 15, "int8"), ("cf1d", 14, 11, "int16")):
        w = W.counts_world(conv, ny=ny, nx=nx)
        out.append({"src": "rand", "w": w, "events": _events(w, 2, idt)})
    # a grid with more cells than a 32-bit integer counts (two 1-D coordinate vectors are all it takes)
    for ny, nx in ((46341, 46341), (43200, 65000)):
        out.append({"src": "rand", "w": dict(W.counts_world("cf1d", ny=ny, nx=nx), pin_via="memory"), "events": [{"a": "GridSizeBig"}]})
    vias = ["memory", "file", "memory", "dask", "memory", "emsopen", "memory"]      # how the dataset is held (viafile.hold)
    for k, c in enumerate(out):
        if c["w"].get("pin_via"):
            c["w"] = dict(c["w"], via="memory")
            continue
        if k % 3 == 1:
            c["w"] = dict(c["w"], wind_first=True)      # see execute
        c["w"] = dict(c["w"], via=vias[k % len(vias)])
        if c["w"]["conv"] in ("cf1d", "cf2d") and k % 2 == 0 and c["w"]["via"] != "emsopen":
            c["w"]["bind"] = "explicit"      # convention made by hand with latitude= / longitude= (worlds.bind)
    return out


def nontrivial(case: dict) -> bool:
    w = case["w"]
    return w["conv"] == "ugrid" or w["ny"] != w["nx"]


def execute(case: dict) -> dict:
    w = case["w"]
    from .. import viafile
    ds = viafile.hold_ds(w, W.build(w))
    conv = W.bind(w, ds)
    kind_enum = type(next(iter(conv.grid_kinds)))
    if w.get("wind_first"):
        # earlier on, the same convention object was used to wind per-cell-per-layer arrays whose linear dimension comes
        # FIRST (what winding returns is C03's subject; here it is history)
        import numpy
        import xarray
        for kind in W.kinds_of(w):
            size = 1
            for s_ in W.kind_shape(w, kind):
                size *= s_
            try:
                conv.wind(xarray.DataArray(numpy.zeros((size, 2)), dims=["index", "layer"]), grid_kind=kind_enum(kind), axis=0)
                conv.wind(xarray.DataArray(numpy.zeros((size, 2)), dims=["cellnum", "layer"]), grid_kind=kind_enum(kind), linear_dimension="cellnum")
            except Exception:
                pass
    rec = {"tid": case["tid"], "src": case["src"],
           "w": {k: w[k] for k in ("conv", "ny", "nx", "nface", "nnode", "nedge")}, "events": []}
    for e in case["events"]:
        e = dict(e)
        a = e["a"]
        if a == "GridSize":
            try:
                e["obs"] = {kind_name(k): as_int(v) for k, v in conv.grid_size.items()}
            except Exception:
                e["obs"] = {k: -1 for k in W.kinds_of(w)}       # (no sizes to be had: reported as sizes of -1)
        elif a == "GridSizeBig":
            import numpy
            import xarray

            def limbs(v):
                v = int(v)
                return [v // 65536, v % 65536]
            try:
                face_dims = list(W.kind_dims(w, "face"))
                probe = xarray.DataArray(numpy.zeros((1, 1)), dims=face_dims).isel({d: slice(0, 0) for d in face_dims})
                sizes = {kind_name(k): v for k, v in conv.grid_size.items()}
                e["obs"] = {"face": limbs(sizes["face"]), "kindof": limbs(conv.get_grid_kind_and_size(probe)[1])}
            except Exception:
                e["obs"] = {"face": [-1, -1], "kindof": [-1, -1]}
        elif a == "Kinds":
            try:
                e["obs"] = sorted(kind_name(k) for k in conv.grid_kinds)
            except Exception:
                e["obs"] = []
        elif a == "Wind" and e.get("api") == "unravel_index":
            e["obs"] = outcome(lambda: native_index(w["conv"], conv.unravel_index(e["n"], grid_kind=kind_enum(e["kind"]))))
        elif a == "Wind":
            e["obs"] = outcome(lambda: native_index(w["conv"], conv.wind_index(e["n"], grid_kind=kind_enum(e["kind"]))))
        elif a == "KindOf":
            import numpy
            import xarray
            dims = list(W.kind_dims(w, e["kind"]))
            shape = list(W.kind_shape(w, e["kind"]))
            if e["extra"]:
                dims = ["extra_t"] + dims[::-1]; shape = [2] + shape[::-1]
            da = xarray.DataArray(numpy.zeros(shape), dims=dims)

            def kindof():
                k, size = conv.get_grid_kind_and_size(da)
                return {"kind": kind_name(k), "size": as_int(size), "kind2": kind_name(conv.get_grid_kind(da))}
            e["obs"] = outcome(kindof)
        elif a == "WindDefault":
            e["obs"] = outcome(lambda: native_index(w["conv"], conv.wind_index(e["n"])))
        elif a == "Ravel":
            nat = e["native"]
            if e.get("idt"):
                import numpy
                nat = [numpy.dtype(e["idt"]).type(v) if isinstance(v, int) else v for v in nat]
            arg = tuple(nat) if w["conv"] in ("cf1d", "cf2d", "shoc_simple") else (kind_enum(nat[0]), *nat[1:])
            e["obs"] = outcome(lambda: as_int(conv.ravel_index(arg)))
        rec["events"].append(e)
    return rec


from .. import viafile as _viafile  # noqa: E402
execute = _viafile.closing(execute)
