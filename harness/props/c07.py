"""C07  Clip masks select exactly the intersecting cells plus the requested buffer."""
from __future__ import annotations

import random

import numpy

from .. import cellsdrv as CD, geoworlds as GW, worlds as W
from ..project import as_int, outcome

ID = "C07"
TITLE = "Clip masks select exactly the intersecting cells plus the requested buffer"
MC = {"quick": [("MC_C07_defs", "MC_C07.cfg", 8)], "thorough": [("MC_C07_defs", "MC_C07_thorough.cfg", 16)]}
TRACE = ("Trace_C07", "Trace_C07.cfg")
# the repository\'s own tests, recorded by harness/harvest_plugin.py, judged by the same trace specification
ALSO = {"quick": [], "thorough": ["harness.props.hv07"]}
REQUIRED = ["Blur", "Smear", "CMask", "ClipMask", "BufferFaces", "MaskFromFaces", "buffer-0", "buffer-1", "buffer-2",
            "buffer-3", "no-hit", "monotone-pair", "mesh-beyond-one-leaf", "mesh-with-edges",
            "geom-inside-cell", "geom-cell-ring", "geom-vertex-point", "geom-line", "geom-edge-line", "geom-multi",
            "geom-cover-all", "geom-border-hug", "geom-outside",
            "cf1d", "cf2d", "shoc_simple", "shoc_standard", "arakawa", "ugrid"]
RULE = ("primitives: EVERY boolean array of the tier's shapes (quick: up to 3x3; thorough: up to 4x4 = 65536 arrays) x buffer "
        "0..3 through blur_mask, x 3 axis patterns through smear_mask (enumeration order is checked by TLC, so the universe "
        "is complete), c_mask_from_centres on every array; make_clip_mask on datasets of every convention x a catalogue "
        "of lattice geometries (inside one cell, a cell's own ring = touching only, vertex point, line, edge line, multi-part, "
        "cover-all, border hug, outside) x buffer 0..3 with monotonicity pairs; buffer_faces / mask_from_face_indexes on "
        "meshes of 12-60 faces; non-trivial = a clip event with at least one hit, or a primitive array with a set cell")
ASSUMPTIONS = ["hit sets are decided by exact integer geometry on the lattice (touching counts)",
               "meshes are valid 2-D meshes (each edge in at most two faces)"]
EXHAUSTIVE = {"quick": True, "thorough": True}
SHAPES = {"quick": [(1, 1), (1, 3), (2, 2), (3, 2), (3, 3)], "thorough": [(1, 1), (1, 4), (4, 1), (2, 3), (3, 3), (3, 4), (4, 4)]}
NOWORLD = {"conv": "none", "ny": 0, "nx": 0, "nface": 0, "nnode": 0, "nedge": -1, "geom": {"none": 0},
           "mesh": {"none": 0}, "vars": []}


def bits(idx, h, w):
    return [[bool((idx >> (j * w + i)) & 1) for i in range(w)] for j in range(h)]


def cases(tier: str, seed: int) -> list[dict]:
    rng = random.Random(seed + 7)
    out = []
    # ---- primitives, whole universe, in enumeration order, chunked into records
    for (h, w) in SHAPES[tier]:
        n = 1 << (h * w)
        for size in range(4):
            group = f"blur-{h}x{w}-b{size}"
            for lo in range(0, n, 2048):
                ev = [{"a": "Blur", "h": h, "w": w, "idx": i, "size": size, "group": group} for i in range(lo, min(n, lo + 2048))]
                out.append({"src": "mc", "world": None, "events": ev})
        for axes in ([False, True], [True, False], [True, True]):
            group = f"smear-{h}x{w}-{int(axes[0])}{int(axes[1])}"
            for lo in range(0, n, 2048):
                ev = [{"a": "Smear", "h": h, "w": w, "idx": i, "axes": axes, "group": group} for i in range(lo, min(n, lo + 2048))]
                out.append({"src": "mc", "world": None, "events": ev})
        if h * w <= 9:
            ev = [{"a": "CMask", "h": h, "w": w, "idx": i} for i in range(n)]
            out.append({"src": "mc", "world": None, "events": ev})
    # ---- make_clip_mask on every convention
    worlds = GW.geo_worlds(tier, seed)
    for w in worlds:
        if w["conv"] == "ugrid" and w["nedge"] < 0 and rng.random() < 0.5:
            pass
        geoms = GW.clip_geometries(w, rng)
        ev = []
        for g in geoms:
            buffers = [0, 1, 2, 3] if tier == "thorough" else sorted(rng.sample([0, 1, 2, 3], 2))
            first = None
            for b in buffers:
                sub = first if first is not None else 0
                ev.append({"a": "ClipMask", "geom": g["parts"], "label": g["label"], "buffer": b, "sub": sub})
                if first is None:
                    first = len(ev)
        # geometry containment pair: inside-cell (index 1..) is contained in cover-all
        idx_small = next(i for i, e in enumerate(ev) if e["label"] == "inside-cell") + 1
        cover = next(g for g in geoms if g["label"] == "cover-all")
        ev.append({"a": "ClipMask", "geom": cover["parts"], "label": "cover-all", "buffer": ev[idx_small - 1]["buffer"], "sub": idx_small})
        if w["conv"] == "ugrid":
            nf = w["nface"]
            for _ in range(3):
                faces = sorted(rng.sample(range(nf), rng.randint(1, min(nf, 4))))
                ev.append({"a": "BufferFaces", "faces": faces})
                ev.append({"a": "MaskFromFaces", "faces": faces})
        out.append({"src": "gen", "world": w, "events": ev})
    return out


def nontrivial(case: dict) -> bool:
    return case["world"] is not None or any(e.get("idx", 0) > 0 for e in case["events"])


def rows(a) -> list:
    return [[bool(v) for v in r] for r in numpy.asarray(a).tolist()]


def table(da) -> list[int]:
    vals = numpy.asarray(da.values, dtype=float)
    return [-1 if v != v else as_int(int(v)) if v == int(v) else -999999 for v in vals.tolist()]


def execute(case: dict) -> dict:
    from emsarray import masking
    from emsarray.conventions.arakawa_c import ArakawaCGridKind, c_mask_from_centres
    w = case["world"]
    if w is None:
        rec = {"tid": case["tid"], "src": case["src"], "w": NOWORLD, "events": []}
        dims = {ArakawaCGridKind.face: ("jf", "if"), ArakawaCGridKind.left: ("jl", "il"),
                ArakawaCGridKind.back: ("jb", "ib"), ArakawaCGridKind.node: ("jn", "in")}
        for e in case["events"]:
            e = dict(e)
            m = numpy.array(bits(e["idx"], e["h"], e["w"]), dtype=bool)
            e["m"] = rows(m)

            def held():
                """the same mask held in C order, in Fortran order (a transposed array), or as a strided view of a larger array"""
                how = e["idx"] % 3
                if how == 1:
                    return numpy.asfortranarray(m)
                if how == 2:
                    big = numpy.zeros((m.shape[0], 2 * m.shape[1]), dtype=bool)
                    big[:, ::2] = m
                    return big[:, ::2]
                return m.copy()
            if e["a"] == "Blur":
                e["obs"] = outcome(lambda: rows(masking.blur_mask(held(), size=e["size"])))
            elif e["a"] == "Smear":
                e["obs"] = outcome(lambda: rows(masking.smear_mask(held(), list(e["axes"]))))
            else:
                def cm():
                    r = c_mask_from_centres(m.copy(), dims)
                    return {k: rows(r[k + "_mask"].values) for k in ("face", "left", "back", "node")}
                e["obs"] = outcome(cm)
            rec["events"].append(e)
        return rec
    from .. import viafile
    ds = viafile.hold_ds(w, W.build(w))
    _before = CD.snapshot(ds)
    conv = W.bind(w, ds)
    tw = CD.tlc_world(w)
    if w["conv"] == "ugrid":
        tw["mesh"]["edges"] = w["mesh"]["edges"]
    rec = {"tid": case["tid"], "src": case["src"], "w": tw, "events": []}
    for e in case["events"]:
        e = dict(e)
        if e["a"] == "ClipMask":
            def clip():
                mask = conv.make_clip_mask(GW.to_shapely({"parts": e["geom"]}), buffer=e["buffer"])
                return proj_mask(w, mask)
            e["obs"] = outcome(clip)
        elif e["a"] == "BufferFaces":
            from emsarray.conventions.ugrid import buffer_faces
            e["obs"] = outcome(lambda: [as_int(v) for v in buffer_faces(numpy.array(e["faces"], dtype=int), conv.topology).tolist()])
        elif e["a"] == "MaskFromFaces":
            from emsarray.conventions.ugrid import mask_from_face_indexes
            e["obs"] = outcome(lambda: proj_mask(w, mask_from_face_indexes(numpy.array(e["faces"], dtype=int), conv.topology)))
        rec["events"].append(e)
    rec["input"] = {"before": _before, "after": CD.snapshot(ds)}
    return rec


def proj_mask(w, mask) -> dict:
    if w["conv"] == "ugrid":
        return {"face": table(mask["new_face_index"]), "node": table(mask["new_node_index"]),
                "edge": table(mask["new_edge_index"]) if "new_edge_index" in mask else []}
    if w["conv"] in ("shoc_standard", "arakawa"):
        return {k: rows(mask[k + "_mask"].values) for k in ("face", "left", "back", "node")}
    return {"face": rows(mask["cell_mask"].values)}


def expected_groups(tier: str) -> dict:
    g = {}
    for (h, w) in SHAPES[tier]:
        for size in range(4):
            g[f"blur-{h}x{w}-b{size}"] = 1 << (h * w)
        for a in ("01", "10", "11"):
            g[f"smear-{h}x{w}-{a}"] = 1 << (h * w)
    return g


def verify(tier: str, verdict: dict) -> list[str]:
    """TLC counted, per primitive group, how many consecutive enumeration indexes it consumed (EnumOrder checks each
    event's array is the idx-th array and idx is the next one): the universe is complete iff the count is 2^(h*w)."""
    got = verdict.get("groups", {})
    return [f"incomplete universe {k}: {got.get(k)} of {v}" for k, v in expected_groups(tier).items() if got.get(k) != v]


def extra_evidence(tier, cases, records, verdict) -> dict:
    return {"exhaustive_groups": verdict.get("groups", {}),
            "exhaustive_note": "exhaustive refers to the blur / smear primitive universes listed in exhaustive_groups; "
                               "make_clip_mask scenarios are generated, not exhaustive"}


from .. import viafile as _viafile  # noqa: E402
execute = _viafile.closing(execute)
