"""C10  Mesh topology is independent of encoding and internally consistent."""
from __future__ import annotations

import itertools
import random

import numpy

from .. import geoworlds as GW, meshtabs, worlds as W
from ..project import outcome, polygon_vertices

ID = "C10"
TITLE = "Mesh topology is independent of encoding and internally consistent"
MC = {"quick": [("MC_C10", "MC_C10.cfg", 8)], "thorough": [("MC_C10", "MC_C10_thorough.cfg", 16)]}
TRACE = ("Trace_C10", "Trace_C10.cfg")
REQUIRED = ["base-0", "base-1", "fill-intfill", "fill-nan", "fill-none", "transposed", "normal", "edge-declared", "edge-implied",
            "coords-plain", "coords-coords", "supplied-en", "supplied-fe", "supplied-ef", "supplied-ff", "supplied-none",
            "edge-numbering-free", "triangle", "quad", "big-face", "interior-edge", "narrow-index-type", "saved-by-emsarray"]
RULE = ("one case = one valid lattice mesh (family of quads / triangle pairs / absent squares / hexagons with collinear "
        "vertices, plus seeded random meshes to ~60 faces with concave faces) with supplied tables in a non-canonical edge "
        "numbering; one event per encoding: base {0,1} x fill {int _FillValue, NaN, none} x {normal, transposed} x subset of "
        "{edge-node, face-edge, edge-face, face-face} supplied x edge dimension {declared, implied} x coordinates {plain, "
        "coords}; quick samples encodings per mesh, thorough takes all valid ones for the family; "
        "non-trivial = every case (each has >= 2 encodings)")
ASSUMPTIONS = [
    "face-edge or edge-face supplied without edge-node has no defined edge numbering: only numbering-independent clauses apply",
    "a transposed table declares its primary dimension (face_dimension / edge_dimension), as UGRID requires",
    "meshes without any edge dimension are outside the quantifier (declared or implied)",
]
EXHAUSTIVE = {"quick": False, "thorough": False}
NAMES = {"fn": "face_node", "en": "edge_node", "fe": "face_edge", "ef": "edge_face", "ff": "face_face"}


def all_encodings():
    out = []
    for base, fill, tr, coords in itertools.product((0, 1), ("intfill", "nan", "none"), (False, True), ("plain", "coords")):
        for r in range(5):
            for sup in itertools.combinations(("en", "fe", "ef", "ff"), r):
                for edge in ("declared", "implied"):
                    if edge == "implied" and not ({"en", "ef"} & set(sup)):
                        continue
                    if tr and edge == "implied" and ({"en", "ef"} & set(sup)):
                        continue                     # transposed edge tables need edge_dimension declared
                    enc = {"base": base, "fill": fill, "transposed": tr, "supplied": list(sup),
                           "edge_dim": edge, "coords_as": coords}
                    out.append(enc)
                    if fill == "intfill":
                        # the fill value just outside the index range: 0 for one-based, -1 for zero-based tables
                        out.append(dict(enc, fillvalue=0 if base == 1 else -1))
    return out


def cases(tier: str, seed: int) -> list[dict]:
    rng = random.Random(seed + 10)
    encs = all_encodings()
    meshes = [W.mesh_from_squares(c, shape=s) for c, s in zip(GW.FAMILY, itertools.cycle(["skew", "rect", "skew2"]))]
    nrand = 4 if tier == "quick" else 30
    for _ in range(nrand):
        meshes.append(W.random_mesh(rng, rng.randint(2, 6), rng.randint(2, 5), shape=rng.choice(["rect", "skew"])))
    # meshes that are not one simply connected piece: two separate patches, and a ring of cells around an island
    meshes.append(W.mesh_from_squares([["Q", "N", "A"], ["N", "N", "N"], ["B", "N", "Q"]], shape="rect"))
    meshes.append(W.mesh_from_squares([["Q", "Q", "Q"], ["Q", "N", "Q"], ["Q", "A", "Q"]], shape="skew"))
    nspecial = 2
    out = []
    for k, m in enumerate(meshes):
        m = meshtabs.supplied_tables(m, rng)
        if tier == "thorough" and k < len(GW.FAMILY):
            chosen = encs
        else:
            chosen = rng.sample(encs, 24 if tier == "quick" else 60)
        if k >= len(meshes) - nspecial:
            # ... with every encoding that leaves all edge tables to be derived
            chosen = chosen[:12] + [x for x in encs if not x["supplied"] or x["supplied"] == ["ff"]]
        # the tables stored in the narrowest integer type that holds every index and the fill value (int8 from a dozen
        # nodes on, int16 otherwise): products of two indexes do not fit that type
        big = max(len(m["nodes"]), len(m["edges"]), len(m["faces"])) + 1
        narrow = "i1" if big < 127 else "i2"
        chosen = list(chosen) + [dict(e, index_dtype=narrow) for e in rng.sample([x for x in encs if x["fill"] != "nan"], 6)]
        # ... and read from a file that was saved by emsarray itself (integer fill values of every kind, one-based with fill 0)
        resave = [x for x in encs if x["fill"] == "intfill" and not x["transposed"] and x["coords_as"] == "plain"]
        chosen = list(chosen) + [dict(x, resave=True) for x in rng.sample(resave, 4)] + \
            [dict(x, resave=True) for x in resave if x.get("fillvalue") == 0][:2]
        w = W.counts_world("ugrid", nface=len(m["faces"]), nnode=len(m["nodes"]), nedge=len(m["edges"]))
        w["mesh"] = m
        out.append({"src": "gen", "world": w, "events": [{"a": "Topology", "enc": e} for e in chosen]})
    return out


def nontrivial(case: dict) -> bool:
    return len(case["events"]) >= 2


def rows(a) -> list:
    a = numpy.ma.asarray(a)
    return numpy.ma.filled(a.astype(int), -1).tolist()


def execute(case: dict) -> dict:
    w = case["world"]
    m = w["mesh"]
    maxn = max(len(f) for f in m["faces"])
    tw = {"conv": "ugrid", "ny": 0, "nx": 0, "nface": w["nface"], "nnode": w["nnode"], "nedge": w["nedge"],
          "geom": {"none": 0},
          "mesh": {"nodes": m["nodes"], "faces": m["faces"], "fn": meshtabs.padded(m["faces"], maxn), "en": m["edges"],
                   "fe": meshtabs.padded(m["face_edge"], maxn), "ef": meshtabs.padded(m["edge_face"], 2),
                   "ff": meshtabs.padded(m["face_face"], maxn)}}
    rec = {"tid": case["tid"], "src": case["src"], "w": tw, "events": []}
    from ..cellsdrv import snapshot
    before, after = [], []
    for k_ev, e in enumerate(case["events"]):
        e = dict(e)
        ww = dict(w); ww["enc"] = dict(e["enc"])
        ds = W.build(ww)
        if e["enc"].get("resave"):
            # the mesh as a file: written, opened, saved with the EMS fixes (what the command line and clip do) and opened again
            import tempfile
            import xarray
            from .. import tlc as _tlc
            with tempfile.TemporaryDirectory(dir=str(_tlc.WORK)) as td:
                ds.to_netcdf(td + "/first.nc")
                d1 = xarray.open_dataset(td + "/first.nc").load(); d1.close()
                d1.ems.to_netcdf(td + "/second.nc")
                ds = xarray.open_dataset(td + "/second.nc").load(); ds.close()
        before += [[f"{k_ev}:{r[0]}"] + r[1:] for r in snapshot(ds)]
        conv = ds.ems
        topo = conv.topology
        obs = {}
        for k, attr in (("fn", "face_node_array"), ("en", "edge_node_array"), ("fe", "face_edge_array"),
                        ("ef", "edge_face_array"), ("ff", "face_face_array")):
            obs[k] = outcome(lambda: rows(getattr(topo, attr)))
        obs["has"] = {"en": bool(topo.has_valid_edge_node_connectivity), "fe": bool(topo.has_valid_face_edge_connectivity),
                      "ef": bool(topo.has_valid_edge_face_connectivity), "ff": bool(topo.has_valid_face_face_connectivity)}
        obs["polys"] = outcome(lambda: [polygon_vertices(p) for p in conv.polygons])
        obs["dims"] = outcome(lambda: {"face": str(topo.face_dimension), "node": str(topo.node_dimension),
                                       "edge": str(topo.edge_dimension), "max": str(topo.max_node_dimension)})
        # the same tables asked for again - of the same topology object, and of a fresh convention object made for the
        # same dataset - after everything has been derived once
        tabs = (("fn", "face_node_array"), ("en", "edge_node_array"), ("fe", "face_edge_array"),
                ("ef", "edge_face_array"), ("ff", "face_face_array"))
        obs["again"] = {k: outcome(lambda: rows(getattr(topo, attr))) for k, attr in tabs}
        topo2 = type(conv)(ds).topology
        obs["fresh"] = {k: outcome(lambda: rows(getattr(topo2, attr))) for k, attr in tabs}
        after += [[f"{k_ev}:{r[0]}"] + r[1:] for r in snapshot(ds)]
        e["obs"] = obs
        e["expectdims"] = {"ok": {"face": "nMesh2_face", "node": "nMesh2_node", "edge": "nMesh2_edge", "max": "nMaxMesh2_face_nodes"}}
        rec["events"].append(e)
    rec["input"] = {"before": before, "after": after}
    return rec
