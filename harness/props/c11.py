"""C11  Convention detection and binding are deterministic and stable."""
from __future__ import annotations

import json
import os
import random
import re

import numpy
import xarray

from .. import tlc

ID = "C11"
TITLE = "Convention detection and binding are deterministic and stable"
MC = {"quick": [("MC_C11_defs", "MC_C11_quick.cfg", 16)], "thorough": [("MC_C11_defs", "MC_C11.cfg", 16)]}
TRACE = ("Trace_C11", "Trace_C11.cfg")
# the binding part of the machine, typed for Apalache: IndInv holds initially, is preserved by every step from ANY state
# satisfying it, and every such step satisfies the action properties (so they hold at any depth, not only TLC's)
INDUCTIVE = {"quick": [], "thorough": [
    {"module": "Binding", "cinit": "CInit", "init": "Init", "inv": "IndInv", "length": 0},
    {"module": "Binding", "cinit": "CInit", "init": "IndInit", "inv": "IndInv", "length": 1},
    {"module": "Binding", "cinit": "CInit", "init": "IndInit", "inv": "ActionInv", "length": 1}]}
REQUIRED = ["Register", "Detect", "Access", "Construct", "Bind", "Copy", "access-refused", "bind-refused", "bind-ok",
            "builtin-tie", "manual-wins", "builtin-registered", "hand-made-arakawa", "Strip", "derived-from-bound-detects-differently", "nothing-matches", "access-cached", "access-after-manual-bind",
            "detected-CFGrid1D", "detected-CFGrid2D", "detected-ShocSimple", "detected-ShocStandard", "detected-UGrid",
            "detected-X", "detected-Y"]
RULE = ("(a) every one of the 256 detection feature vectors (CF coordinate rank none / 1-D / 2-D / mixed x ems_version x "
        "(j, i) dimensions x the eight SHOC standard coordinates x UGRID Conventions marker x mesh variable x "
        "topology_dimension 2; i.e. every convention and every near-miss) concretised as a dataset and detected before and "
        "after registering test conventions X and Y at every specificity; (b) every behaviour of the binding machine emitted by "
        "TLC from MC_C11 (exhaustive to depth 3 quick / 4 thorough, plus seeded -simulate behaviours of depth 10) over "
        "{register, detect, access, construct, bind, copy} replayed on real datasets with a fresh registry; "
        "non-trivial = behaviours with >= 2 actions, vectors with >= 1 matching class")
ASSUMPTIONS = ["the order of entry points is read from the installation; ties between equally specific built-in classes are "
               "left open by the property (any of them is accepted, but the choice must be repeatable)",
               "X and Y are CFGrid2D subclasses whose check_dataset returns the dataset attribute xs / ys"]
EXHAUSTIVE = {"quick": False, "thorough": False}
PARALLEL = True

LLS = ["none", "1d", "2d", "mixed"]
SPECS = [0, 10, 20, 30]


def encode(ll, bits, xs, ys) -> int:
    return 1 + bits + 64 * LLS.index(ll) + 256 * SPECS.index(xs) + 1024 * SPECS.index(ys)


def decode(idx: int) -> dict:
    i = idx - 1
    b = i % 64
    return {"ll": LLS[(i // 64) % 4], "ems": bool(b & 1), "ji": bool(b & 2), "std8": bool(b & 4), "ugconv": bool(b & 8),
            "meshvar": bool(b & 16), "topo2": bool(b & 32), "xs": SPECS[(i // 256) % 4], "ys": SPECS[(i // 1024) % 4]}


def _emit(depth: int, simulate: int, seed: int) -> list[dict]:
    out = []
    cfg_src = (tlc.SPEC / "Gen_C11.cfg").read_text()
    work = tlc.WORK / "C11"
    work.mkdir(parents=True, exist_ok=True)

    def run(cfg_text, extra):
        name = f"Gen_C11_{os.getpid()}.cfg"
        (tlc.SPEC / name).write_text(cfg_text)
        try:
            meta = tlc._metadir("C11-gen")
            args = ["tlc", "-workers", "1", "-metadir", str(meta), "-noGenerateSpecTE", "-config", name, *extra, "MC_C11_defs.tla"]
            rc, text, _ = tlc._run(args, timeout=1800)
        finally:
            (tlc.SPEC / name).unlink()
        for m in re.finditer(r'<<"CASE", "(.*)">>', text):
            out.append(json.loads(m.group(1).encode().decode("unicode_escape")))
        if not out:
            raise tlc.MachineryError("no behaviours emitted\n" + text[-2000:])
    run(cfg_src.replace("Depth = 3", f"Depth = {depth}"), [])
    if simulate:
        run(cfg_src.replace("Depth = 3", "Depth = 10"), ["-simulate", f"num={simulate}", "-depth", "12", "-seed", str(seed + 1)])
    return out


def cases(tier: str, seed: int) -> list[dict]:
    rng = random.Random(seed + 11)
    out = []
    # (a) all feature vectors
    for ll in LLS:
        for bits in range(64):
            xs, ys = rng.choice(SPECS), rng.choice(SPECS)
            c = encode(ll, bits, xs, ys)
            ev = [{"a": "Detect", "obj": 1}, {"a": "Register", "cls": rng.choice(["X", "Y"])}, {"a": "Detect", "obj": 1},
                  {"a": "Register", "cls": rng.choice(["X", "Y"])}, {"a": "Detect", "obj": 1}, {"a": "Detect", "obj": 1}]
            out.append({"src": "vec", "init": [c], "events": ev})
            # the dataset is accessed (so whatever the accessor remembers is in place), a copy with one distinguishing feature
            # removed is derived from it, and the copy is detected / accessed: its own content decides
            for bit in range(6):
                if bits >> bit & 1 and (bits in (3, 7, 56, 59, 63) or rng.random() < 0.1):
                    out.append({"src": "vec", "init": [c], "events": [{"a": "Access", "obj": 1}, {"a": "Strip", "obj": 1, "bit": bit},
                                                                      {"a": "Detect", "obj": 2}, {"a": "Access", "obj": 2}, {"a": "Access", "obj": 1}]})
            # a convention object made BY HAND for one dataset (here: the generic Arakawa C class with explicit coordinate names)
            # changes nothing about what is detected - for this dataset or for any other
            if bits & 4 and (bits in (4, 5, 7, 12, 39) or rng.random() < 0.2):
                out.append({"src": "vec", "init": [c, c], "events": [{"a": "Detect", "obj": 1}, {"a": "Construct", "cls": "ArakawaC", "obj": 1},
                                                                     {"a": "Detect", "obj": 1}, {"a": "Detect", "obj": 2}, {"a": "Access", "obj": 2},
                                                                     {"a": "Bind", "conv": 1}, {"a": "Access", "obj": 1}]})
            # built-in classes registered by hand as well (they are then both registered and entry points)
            bi = ["ShocStandard", "ShocSimple", "UGrid", "CFGrid1D", "CFGrid2D"]
            if bits in (7, 15, 59, 63, 23, 39) or rng.random() < 0.15:
                k1, k2 = rng.sample(bi, 2)
                out.append({"src": "vec", "init": [c], "events": [{"a": "Detect", "obj": 1}, {"a": "Register", "cls": k1}, {"a": "Detect", "obj": 1},
                                                                  {"a": "Register", "cls": rng.choice(["X", k2])}, {"a": "Detect", "obj": 1},
                                                                  {"a": "Register", "cls": k2}, {"a": "Detect", "obj": 1}, {"a": "Access", "obj": 1}]})
            if ll in ("1d", "2d") and bits in (0, 1, 3):    # CF coordinates marked in the other allowed ways
                for variant in (1, 2):
                    out.append({"src": "vec", "init": [c], "events": [dict(e) for e in ev], "variant": variant})
            if bits & 2 and bits & 1:                        # the (j, i) dimensions brought about in the other ways
                for variant in (1, 2):
                    out.append({"src": "vec", "init": [c], "events": [dict(e) for e in ev], "variant": variant})
            if bits & 16 and not bits & 32:      # a mesh variable that is not a 2-D mesh: every way of writing that
                for variant in (1, 2):
                    out.append({"src": "vec", "init": [c], "events": [dict(e) for e in ev], "variant": variant})
    # (b) behaviours from TLC.  MC_C11_defs!TheContents as canonical indexes:
    the_contents = [encode("1d", 0, 10, 0), encode("2d", 1 + 2, 0, 30), encode("none", 8 + 32, 20, 0), encode("mixed", 1 + 8 + 16, 0, 0),
                    encode("2d", 1 + 2 + 4, 0, 0)]
    beh = _emit(3 if tier == "quick" else 4, 300 if tier == "quick" else 3000, seed)
    seen = set()
    for b in beh:
        key = json.dumps(b, sort_keys=True)
        if key in seen:
            continue
        seen.add(key)
        init = [the_contents[k - 1] for k in b["init"] if k != 0]
        out.append({"src": "mc", "init": init, "events": b["hist"], "variant": len(out) % 3})
    return out


def nontrivial(case: dict) -> bool:
    if case["src"] == "vec":
        f = decode(case["init"][0])
        return f["ll"] in ("1d", "2d") or (f["ems"] and f["ji"]) or f["std8"] or (f["ugconv"] and f["meshvar"] and f["topo2"])
    return len(case["events"]) >= 2


def build_dataset(idx: int, variant: int = 0) -> xarray.Dataset:
    """variant chooses among the concretisations of one and the same feature vector (e.g. how 'not a 2-D mesh' is written)"""
    f = decode(idx)
    dv = {}
    z = numpy.zeros
    # how the latitude / longitude variables are marked (CF allows units in several spellings, standard_name, axis)
    style = [({"units": "degrees_north"}, {"units": "degrees_east"}, {"standard_name": "latitude"}, {"standard_name": "longitude"}),
             ({"axis": "Y"}, {"axis": "X"}, {"units": "degree_N"}, {"units": "degreesE"}),
             ({"standard_name": "latitude"}, {"units": "degree_east"}, {"axis": "Y"}, {"axis": "X"})][variant % 3]
    if variant % 3 != 0 and f["ll"] in ("1d", "2d"):
        a1, o1, a2, o2 = style
        if f["ll"] == "1d":
            dv["lat"] = xarray.DataArray(z(2), dims=["y"], attrs=a1)
            dv["lon"] = xarray.DataArray(z(3), dims=["x"], attrs=o1)
        else:
            dv["lat"] = xarray.DataArray(z((2, 3)), dims=["y", "x"], attrs=a2)
            dv["lon"] = xarray.DataArray(z((2, 3)), dims=["y", "x"], attrs=o2)
    elif f["ll"] == "1d":
        dv["lat"] = xarray.DataArray(z(2), dims=["y"], attrs={"units": "degrees_north"})
        dv["lon"] = xarray.DataArray(z(3), dims=["x"], attrs={"units": "degrees_east"})
    elif f["ll"] == "2d":
        dv["lat"] = xarray.DataArray(z((2, 3)), dims=["y", "x"], attrs={"standard_name": "latitude"})
        dv["lon"] = xarray.DataArray(z((2, 3)), dims=["y", "x"], attrs={"standard_name": "longitude"})
    elif f["ll"] == "mixed":
        dv["lat"] = xarray.DataArray(z(2), dims=["y"], attrs={"units": "degrees_north"})
        dv["lon"] = xarray.DataArray(z((2, 3)), dims=["y", "x"], attrs={"units": "degrees_east"})
    coords = {}
    if f["ji"]:
        # the (j, i) dimensions are there - however they come about: a 2-D variable, a variable with a further dimension, or
        # only a coordinate variable
        if variant % 3 == 1:
            dv["dummy_ji"] = xarray.DataArray(z((2, 2, 2)), dims=["record", "j", "i"])
        elif variant % 3 == 2:
            coords["dummy_ji"] = xarray.DataArray(z((2, 2)), dims=["j", "i"])
        else:
            dv["dummy_ji"] = xarray.DataArray(z((2, 2)), dims=["j", "i"])
    if f["std8"]:
        for n in ("y_centre", "x_centre", "y_left", "x_left", "y_back", "x_back", "y_grid", "x_grid"):
            # the eight geometry variables are there as data variables, some of them as coordinates (what a `coordinates`
            # attribute on a data variable makes of them on opening), or all of them as coordinates
            tgt = coords if (variant % 3 == 2 or (variant % 3 == 1 and n.endswith("centre"))) else dv
            tgt[n] = xarray.DataArray(z((2, 2)), dims=["a_" + n[2:], "b_" + n[2:]])
    if f["meshvar"]:
        attrs = {"cf_role": "mesh_topology", "node_coordinates": "nx ny", "face_node_connectivity": "fn"}
        if f["topo2"]:
            attrs["topology_dimension"] = 2
        elif variant % 3 == 0:
            attrs["topology_dimension"] = 1
        elif variant % 3 == 2:
            attrs["topology_dimension"] = 3
        # variant 1: the attribute is missing altogether
        dv["Mesh"] = xarray.DataArray(numpy.int32(0), attrs=attrs)
    ds = xarray.Dataset(dv, coords=coords)
    if variant % 3 == 2 and f["ll"] == "2d":
        # labelled 1-D projection axes, coordinate variables declared AFTER the 2-D latitude / longitude data variables
        ds = ds.assign_coords(y=("y", z(2), {"axis": "Y", "units": "m"}), x=("x", z(3), {"axis": "X", "units": "m"}))
    elif variant % 3 == 2 and f["ll"] == "1d":
        # 2-D geographic coordinates declared AFTER the 1-D latitude / longitude data variables
        ds = ds.assign_coords(nav_lat=(("y", "x"), z((2, 3)), {"standard_name": "latitude"}),
                              nav_lon=(("y", "x"), z((2, 3)), {"standard_name": "longitude"}))
    if f["ems"]:
        ds.attrs["ems_version"] = "v1"
    if f["ugconv"]:
        ds.attrs["Conventions"] = "CF-1.6 UGRID-1.0"
    ds.attrs["xs"] = f["xs"]; ds.attrs["ys"] = f["ys"]
    return ds


def execute(case: dict) -> dict:
    import emsarray
    from emsarray.conventions import _registry
    from emsarray.conventions.grid import CFGrid2D
    from emsarray.state import State
    from emsarray import conventions

    class X(CFGrid2D):
        @classmethod
        def check_dataset(cls, dataset):
            return dataset.attrs.get("xs") or None

    class Y(CFGrid2D):
        @classmethod
        def check_dataset(cls, dataset):
            return dataset.attrs.get("ys") or None
    classes = {"X": X, "Y": Y}
    for n in ("ArakawaC", "CFGrid1D", "CFGrid2D", "ShocSimple", "ShocStandard", "UGrid"):
        classes[n] = getattr(conventions, n)
    if case.get("variant", 0) % 2 == 1:
        # project-local classes that carry the NAME of a built-in convention (another class all the same)
        X.__name__ = "UGrid"; X.__qualname__ = "UGrid"
        Y.__name__ = "ShocStandard"; Y.__qualname__ = "ShocStandard"
    labels = {cls: n for n, cls in classes.items()}

    def label(cls) -> str:
        return labels.get(cls, cls.__name__)
    saved = _registry.registry
    _registry.registry = _registry.ConventionRegistry()
    try:
        eps = [label(c) for c in _registry.registry.entry_point_conventions]
        objs = [build_dataset(c, case.get("variant", 0)) for c in case["init"]]
        contents = list(case["init"])
        convs: list = []          # convention objects by id (position + 1), in order of first appearance
        ids: dict[int, int] = {}

        def conv_id(obj) -> int:
            if obj is None:
                return 0
            if id(obj) not in ids:
                convs.append(obj)
                ids[id(obj)] = len(convs)
            return ids[id(obj)]

        def bound_state():
            return [conv_id(State.get(d).convention) for d in objs]
        rec = {"tid": case["tid"], "src": case["src"], "w": {"eps": eps}, "init": list(case["init"]), "events": []}
        prev: dict = {}
        regs: list[str] = []
        for e in case["events"]:
            e = dict(e)
            a = e["a"]
            obs: dict = {}
            if a == "Register":
                _registry.register_convention(classes[e["cls"]])
                regs.append(e["cls"])
            elif a == "Detect":
                k = emsarray.get_dataset_convention(objs[e["obj"] - 1])
                obs["cls"] = "None" if k is None else label(k)
                key = (contents[e["obj"] - 1], tuple(regs))
                obs["prev"] = prev.get(key, "")
                prev[key] = obs["cls"]
            elif a == "Access":
                try:
                    c = objs[e["obj"] - 1].ems
                    obs["conv"] = conv_id(c); obs["cls"] = label(type(c))
                except Exception:
                    obs["conv"] = 0; obs["cls"] = "error"
            elif a == "Construct":
                try:
                    if e["cls"] == "ArakawaC":
                        # the generic Arakawa C class is made by hand, with the names of the coordinate variables
                        names = {k: ("y_" + s, "x_" + s) for k, s in (("face", "centre"), ("left", "left"), ("back", "back"), ("node", "grid"))}
                        c = classes["ArakawaC"](objs[e["obj"] - 1], coordinate_names=names)
                    else:
                        c = classes[e["cls"]](objs[e["obj"] - 1])
                    obs["conv"] = conv_id(c); obs["cls"] = label(type(c))
                except Exception:
                    obs["conv"] = 0; obs["cls"] = "error"
            elif a == "Bind":
                if e["conv"] > len(convs):
                    obs["ok"] = False          # the convention object the behaviour refers to was never produced
                else:
                    try:
                        convs[e["conv"] - 1].bind()
                        obs["ok"] = True
                    except ValueError:
                        obs["ok"] = False
            elif a == "Strip":
                # a (deep) copy with one distinguishing feature removed
                d = objs[e["obj"] - 1].copy(deep=True)
                f = decode(contents[e["obj"] - 1])
                bit = e["bit"]
                if bit == 0 and f["ems"]:
                    del d.attrs["ems_version"]
                elif bit == 1 and f["ji"]:
                    d = d.drop_vars("dummy_ji")
                elif bit == 2 and f["std8"]:
                    d = d.drop_vars("y_centre")
                elif bit == 3 and f["ugconv"]:
                    del d.attrs["Conventions"]
                elif bit == 4 and f["meshvar"]:
                    d = d.drop_vars("Mesh")
                elif bit == 5 and f["topo2"] and f["meshvar"]:
                    d["Mesh"].attrs["topology_dimension"] = 1
                objs.append(d)
                c0 = contents[e["obj"] - 1]
                contents.append(c0 - (1 << bit) if ((c0 - 1) % 64) >> bit & 1 else c0)
                obs["new"] = len(objs)
            elif a == "Copy":
                objs.append(objs[e["obj"] - 1].copy())
                contents.append(contents[e["obj"] - 1])
                obs["new"] = len(objs)
            obs["bound"] = bound_state()
            e["obs"] = obs
            rec["events"].append(e)
        return rec
    finally:
        _registry.registry = saved
