"""C20  Command line tools compute exactly what the library computes."""
from __future__ import annotations

import argparse
import json
import os
import random
import shutil
import subprocess
import sys

import numpy
import xarray

from .. import cellsdrv as CD, geoworlds as GW, tlc, worlds as W
from ..project import BADINT, outcome
from ..worlds import MISSING, SCALE

ID = "C20"
TITLE = "Command line tools compute exactly what the library computes"
MC = {"quick": [("MC_C20", "MC_C20.cfg", 8)], "thorough": [("MC_C20", "MC_C20.cfg", 16)]}
TRACE = ("Trace_C20", "Trace_C20.cfg")
THOROUGH_EXTRA_SEEDS = 2
# the repository\'s own tests, recorded by harness/harvest_plugin.py, judged by the same trace specification
ALSO = {"quick": [], "thorough": ["harness.props.hv20"]}
REQUIRED = ["BoundsArg", "GeometryArg", "GeoJson", "Cli", "is-bounds", "not-bounds", "underscore", "spaces", "five-numbers",
            "geojson-string", "geojson-file.geojson", "geojson-file.json", "geojson-valid", "geojson-invalid",
            "cmd-clip", "cmd-extract-points", "cmd-export-geometry", "flag-first-row-misses", "flag-last-row-misses", "flag-ext-fragment", "flag-work-dir-reused", "flag-duplicate-rows", "request-good", "request-bad", "library-fails",
            "flag-policy-error", "flag-policy-drop", "flag-policy-fill", "flag-format-geojson", "flag-format-shapefile",
            "flag-format-wkt", "flag-format-wkb", "flag-format-auto",
            "conv-cf1d", "conv-cf2d", "conv-shoc_simple", "conv-shoc_standard", "conv-ugrid"]
RULE = ("(a) argument strings: sentences of the bounds grammar (signs, decimal forms 1 / 1. / .5 / 1.5, underscores, spaces "
        "around commas) and every single-character insert / delete / replace of base sentences, through bounds_argument and "
        "geometry_argument; (b) GeoJSON strings and .geojson / .json files of catalogue geometries, malformed JSON, unknown "
        "suffix, missing file; (c) emsarray.cli.main in subprocesses on datasets of every detectable convention written to "
        "disk: clip with bounds / GeoJSON, extract-points with CSV tables of hits and misses under the three policies, "
        "export-geometry in four formats explicit and guessed, plus failing requests; each output file is projected and compared "
        "with the projection of the corresponding library call; non-trivial = every CLI invocation and every non-sentence string")
ASSUMPTIONS = ["the command line is run with DASK_SCHEDULER=synchronous (dask's threaded scheduler is unsafe with netCDF4 in this environment)",
               "decimal values are generated with at most three fractional digits so they can be projected exactly in thousandths",
               "the library calls themselves are judged by the other properties; here the command line is compared with them",
               "plain ArakawaC datasets cannot be auto-detected and are not reachable from the command line"]
EXHAUSTIVE = {"quick": False, "thorough": False}
PARALLEL = True

FORMS = ["1", "-1", "1.", ".5", "1.5", "1_0", "-2.25", "12_345.125", "0", "-.75"]
SEPS = [",", " ,", ", ", " , ", ",  "]
ALPHABET = "01-.,_ xe+"


def sentences(rng, n):
    out = []
    for _ in range(n):
        out.append("".join(rng.choice(FORMS) + (rng.choice(SEPS) if k < 3 else "") for k in range(4)))
    return out


def edits(base):
    out = set()
    for k in range(len(base) + 1):
        for c in ALPHABET:
            out.add(base[:k] + c + base[k:])
    for k in range(len(base)):
        out.add(base[:k] + base[k + 1:])
        for c in ALPHABET:
            out.add(base[:k] + c + base[k + 1:])
    return sorted(out)


def cases(tier: str, seed: int) -> list[dict]:
    rng = random.Random(seed + 20)
    out = []
    strings = sentences(rng, 60 if tier == "quick" else 600)
    bases = ["1,-1.5,.5 ,1_0", "1., 1,1,1"] + ([] if tier == "quick" else sentences(rng, 6))
    for b in bases:
        strings += edits(b)
    strings += ["1,2,3,4,5", "1,2,3,4xyz", "1,2,3", " 1,2,3,4", "1,2,3,4 ", "1,2,,4", "1e3,2,3,4", "+1,2,3,4", "", "1,2,3,4,"]
    ev = []
    for s in strings:
        ev.append({"a": rng.choice(["BoundsArg", "GeometryArg"]), "s": [ord(c) for c in s]})
    for k in range(0, len(ev), 400):
        out.append({"src": "gen", "kind": "args", "events": ev[k:k + 400]})
    # (b) GeoJSON
    gj = []
    w0 = GW.structured_world("cf2d", 3, 3, shape="skew", bounds=True)
    for g in GW.clip_geometries(w0, rng):
        for via in ("string", "file.geojson", "file.json"):
            gj.append({"a": "GeoJson", "geom": g["parts"], "via": via, "valid": True})
    gj += [{"a": "GeoJson", "geom": [], "via": v, "valid": False, "bad": b}
           for v, b in (("string", "malformed"), ("string", "notgeometry"), ("file.geojson", "malformed"), ("file.txt", "suffix"),
                        ("file.geojson", "missing"))]
    out.append({"src": "gen", "kind": "geojson", "events": gj})
    # (c) CLI
    for conv in ("cf1d", "cf2d", "shoc_simple", "shoc_standard", "ugrid"):
        if conv == "ugrid":
            w = GW.mesh_world(W.mesh_from_squares([["Q", "A", "Q"], ["B", "Q", "N"]], shape="rect"), enc={"base": 0, "fill": "nan"})
        elif conv == "cf1d":
            w = GW.structured_world(conv, 3, 4, bounds=True)
        else:
            w = GW.structured_world(conv, 3, 3, shape="rect", bounds=True, holes=[(0, 0)] if conv in ("cf2d", "shoc_standard") else None)
        # on-disk encoding of the coordinates: a finite _FillValue marking the cells without coordinates, or packed integers
        # (what the file means is what emsarray.open_dataset decodes; the command line must read it the same way)
        w["coordenc"] = {"cf1d": "packed", "cf2d": "fill", "shoc_simple": "packed", "shoc_standard": "fill"}.get(conv)
        CD.add_data_vars(w, rng, rich=False, packed=True)
        if conv in ("shoc_simple", "ugrid"):
            # a time axis counted in milliseconds
            for x in w["extras"]:
                if (x.get("coord") or {}).get("kind") == "time":
                    x["coord"] = dict(x["coord"], encoding={"units": "milliseconds since 2000-01-01 00:00:00", "calendar": "proleptic_gregorian"})
        if conv in ("cf1d", "shoc_standard", "ugrid"):
            w["auxtime"] = True      # a second time-like variable in other units (see worlds.build)
        geoms = GW.clip_geometries(w, rng)
        pts = GW.probe_points(w, rng, limit=12)
        cli = []
        box = next(g for g in geoms if g["label"] == "cell-ring")
        xs = [p[0] for p in box["parts"][0]["pts"]]; ys = [p[1] for p in box["parts"][0]["pts"]]
        cli.append({"cmd": "clip", "geomkind": "bounds", "bounds": [min(xs), min(ys), max(xs), max(ys)], "flags": ["geom-bounds"], "request": "good"})
        cli.append({"cmd": "clip", "geomkind": "geojson", "geom": next(g for g in geoms if g["label"] == "multi")["parts"], "flags": ["geom-geojson"], "request": "good"})
        inner = next(g for g in geoms if g["label"] == "inside-cell")
        ixs = [p[0] for p in inner["parts"][0]["pts"]]; iys = [p[1] for p in inner["parts"][0]["pts"]]
        cli.append({"cmd": "clip", "geomkind": "bounds", "bounds": [min(xs), min(ys), max(xs), max(ys)], "flags": ["geom-bounds", "work-dir-reused"],
                    "prior_bounds": [min(ixs) - 30, min(iys) - 30, max(ixs) + 30, max(iys) + 30], "request": "good"})
        line = next((g for g in geoms if g["label"] == "line"), None)
        if line is not None:
            # a transect line, and a collection of a polygon and that line: parts without area select cells too
            cli.append({"cmd": "clip", "geomkind": "geojson", "geom": line["parts"], "flags": ["geom-geojson", "geom-line"], "request": "good"})
            cli.append({"cmd": "clip", "geomkind": "geojson", "geom": inner["parts"] + line["parts"], "flags": ["geom-geojson", "geom-line"], "request": "good"})
        cli.append({"cmd": "clip", "geomkind": "text", "text": "1,2,3,4,5", "flags": ["geom-bad"], "request": "bad"})
        for policy in ("error", "drop", "fill"):
            ps = [rng.choice(pts) for _ in range(4)] + [[100000, 100000]]      # the last point misses
            rng.shuffle(ps)
            cli.append({"cmd": "extract-points", "points": ps, "policy": policy, "flags": ["policy-" + policy], "request": "good"})
        # exactly one miss, in the first row of the table (and, separately, in the last)
        hits = GW.inner_points(w)[:3]
        cli.append({"cmd": "extract-points", "points": [GW.far_point(w)] + hits, "policy": "error", "flags": ["policy-error", "first-row-misses"], "request": "good"})
        cli.append({"cmd": "extract-points", "points": hits + [GW.far_point(w)], "policy": "error", "flags": ["policy-error", "last-row-misses"], "request": "good"})
        # a station listed twice (two identical rows) with further rows after it
        if len(hits) >= 2:
            for policy in ("error", "fill"):
                cli.append({"cmd": "extract-points", "points": [hits[0], hits[1], hits[1], hits[0], hits[-1]], "policy": policy,
                            "flags": ["policy-" + policy, "duplicate-rows"], "request": "good"})
        inside = [p for p in pts][:3]
        cli.append({"cmd": "extract-points", "points": inside, "policy": "fill", "flags": ["policy-fill", "custom-dim"], "dim": "station", "request": "good"})
        for fmt, ext in (("geojson", "geojson"), ("shapefile", "shp"), ("wkt", "wkt"), ("wkb", "wkb")):
            cli.append({"cmd": "export-geometry", "format": fmt, "ext": ext if rng.random() < .5 else "dat", "flags": ["format-" + fmt], "request": "good"})
            if tier == "thorough" or rng.random() < .4:
                cli.append({"cmd": "export-geometry", "format": "auto", "ext": ext, "flags": ["format-auto"], "request": "good"})
        cli.append({"cmd": "export-geometry", "format": "auto", "ext": "json", "flags": ["format-auto"], "request": "good"})
        cli.append({"cmd": "export-geometry", "format": "auto", "ext": "xyz", "flags": ["format-auto", "bad-extension"], "request": "bad"})
        # no extension at all, and fragments of the known extensions: nothing the format can be guessed from
        for ext in ("", "geo", "js", "sh"):
            cli.append({"cmd": "export-geometry", "format": "auto", "ext": ext, "flags": ["format-auto", "bad-extension", "ext-fragment"], "request": "bad"})
        for k, c in enumerate(cli):
            out.append({"src": "gen", "kind": "cli", "world": w, "events": [dict(c, a="Cli", conv=conv)]})
    # fewer cells WITH a polygon than a power of ten, while the highest linear index has one digit more (12 cells, the first
    # three without coordinates): every attribute column must be wide enough for its largest value
    w = GW.structured_world("cf2d", 3, 4, shape="rect", bounds=True, holes=[(0, 0), (0, 1), (0, 2)])
    CD.add_data_vars(w, rng, rich=False)
    for fmt, ext in (("shapefile", "shp"), ("auto", "shp")):
        out.append({"src": "gen", "kind": "cli", "world": w, "events": [
            {"cmd": "export-geometry", "format": fmt, "ext": ext, "flags": ["format-" + ("auto" if fmt == "auto" else fmt)], "request": "good",
             "a": "Cli", "conv": "cf2d"}]})
    return out


def nontrivial(case: dict) -> bool:
    return True


# ------------------------------------------------------------------ projection
def thousandths(v) -> int:
    x = float(v) * 1000
    r = round(x)
    return int(r) if abs(x - r) < 1e-6 else BADINT


def proj_geom(g, scale=thousandths) -> dict:
    import shapely
    if g.geom_type == "Polygon":
        return {"type": "Polygon", "verts": [[scale(x), scale(y)] for x, y in list(g.exterior.coords)[:-1]]}
    return {"type": g.geom_type, "verts": []}


def proj_geom_parts(g) -> dict:
    """type + list of parts, each a list of [x, y] as the numbers appear in the GeoJSON (integers)"""
    def pts(coords):
        return [[int(x), int(y)] for x, y in coords]
    t = g.geom_type
    if t == "Point":
        return {"type": t, "parts": [pts(g.coords)]}
    if t == "LineString":
        return {"type": t, "parts": [pts(g.coords)]}
    if t == "Polygon":
        return {"type": t, "parts": [pts(list(g.exterior.coords)[:-1])]}
    if t in ("MultiPolygon", "MultiPoint", "MultiLineString", "GeometryCollection"):
        return {"type": t, "parts": [proj_geom_parts(p)["parts"][0] for p in g.geoms]}
    return {"type": t, "parts": []}


def geojson_of(parts) -> dict:
    def one(p):
        if p["t"] == "pt":
            return {"type": "Point", "coordinates": p["pts"][0]}
        if p["t"] == "ln":
            return {"type": "LineString", "coordinates": p["pts"]}
        return {"type": "Polygon", "coordinates": [p["pts"] + [p["pts"][0]]]}
    if len(parts) == 1:
        return one(parts[0])
    kinds = {p["t"] for p in parts}
    if kinds == {"pg"}:
        return {"type": "MultiPolygon", "coordinates": [[p["pts"] + [p["pts"][0]]] for p in parts]}
    if kinds == {"pt"}:
        return {"type": "MultiPoint", "coordinates": [p["pts"][0] for p in parts]}
    return {"type": "GeometryCollection", "geometries": [one(p) for p in parts]}


def geojson_degrees(parts) -> dict:
    def conv(pts):
        return [[x * SCALE, y * SCALE] for x, y in pts]
    return geojson_of([{"t": p["t"], "pts": conv(p["pts"])} for p in parts])


def proj_nc(path) -> dict:
    ds = xarray.open_dataset(path, decode_times=False).load()
    ds.close()
    vars_ = []
    for n in sorted(ds.variables):
        v = ds[n]
        if v.dtype.kind in "fiub":
            arr = numpy.asarray(v.values, dtype=float).reshape(-1)
            data = [MISSING if x != x else (int(round(x * 64)) if abs(x * 64 - round(x * 64)) < 1e-6 else BADINT) for x in arr.tolist()]
            vars_.append({"name": str(n), "dims": [str(d) for d in v.dims], "shape": [int(s) for s in v.shape], "data": data})
        else:
            vars_.append({"name": str(n), "dims": [str(d) for d in v.dims], "shape": [int(s) for s in v.shape], "data": []})
    # what the time axes of the file MEAN (units and counts read together): minutes since 1970 per record
    dec = xarray.open_dataset(path).load()
    dec.close()
    for n in sorted(dec.variables):
        if dec[n].dtype.kind == "M":
            inst = numpy.atleast_1d(dec[n].values).astype("datetime64[s]").astype("int64").reshape(-1)
            vars_.append({"name": str(n) + "@instants", "dims": [str(d) for d in dec[n].dims], "shape": [int(s) for s in dec[n].shape],
                          "data": [int(x // 60) if x % 60 == 0 else BADINT for x in inst.tolist()]})
    return {"vars": vars_, "attrs": sorted([str(k), str(v)] for k, v in ds.attrs.items())}


def read_features(fmt, path) -> dict:
    import shapely
    if fmt == "geojson":
        d = json.load(open(path))
        return {"features": [[[CD.f2q(x), CD.f2q(y)] for x, y in f["geometry"]["coordinates"][0]] +
                             [[int(f["properties"]["linear_index"]), 0]] for f in d["features"]]}
    if fmt == "shapefile":
        import shapefile
        with shapefile.Reader(path) as r:
            return {"features": [[[CD.f2q(x), CD.f2q(y)] for x, y in sr.shape.points] + [[int(sr.record[1] if sr.record[1] is not None else -9), 0]]
                                 for sr in r.iterShapeRecords()]}
    g = shapely.from_wkt(open(path).read()) if fmt == "wkt" else shapely.from_wkb(open(path, "rb").read())
    return {"features": [[[CD.f2q(x), CD.f2q(y)] for x, y in p.exterior.coords] for p in g.geoms]}


# ------------------------------------------------------------------ execution
def run_cli(argv, cwd) -> tuple[int, bool]:
    # dask's threaded scheduler is not safe with netCDF4 here (the repository's own conftest forces the synchronous
    # scheduler for the same reason); the command line runs with the same setting as the library calls
    env = dict(os.environ, PYTHONWARNINGS="ignore", DASK_SCHEDULER="synchronous")
    p = subprocess.run([sys.executable, "-W", "ignore", "-m", "emsarray", *argv], capture_output=True, text=True, cwd=cwd,
                       env=env, timeout=600)
    return p.returncode, bool((p.stderr or "").strip())


def execute(case: dict) -> dict:
    from emsarray.cli import utils as cliutils
    rec = {"tid": case["tid"], "src": case["src"], "events": []}
    kind = case["kind"]
    if kind == "args":
        for e in case["events"]:
            e = dict(e)
            s = "".join(chr(c) for c in e["s"])
            fn = cliutils.bounds_argument if e["a"] == "BoundsArg" else cliutils.geometry_argument
            try:
                e["obs"] = {"ok": proj_geom(fn(s))}
            except argparse.ArgumentTypeError:
                e["obs"] = {"err": "ArgumentTypeError"}
            except Exception as ex:
                e["obs"] = {"err": type(ex).__name__}
            rec["events"].append(e)
        return rec
    work = tlc.WORK / "C20" / f"{os.getpid()}-{case['tid']}"
    if work.exists():
        shutil.rmtree(work)
    work.mkdir(parents=True)
    try:
        if kind == "geojson":
            for k, e in enumerate(case["events"]):
                e = dict(e)
                if e["valid"]:
                    text = json.dumps(geojson_of(e["geom"]))
                    import shapely.geometry
                    want = proj_geom_parts(shapely.geometry.shape(json.loads(text)))      # the input geometry, as a value
                    e["type"], e["parts"] = want["type"], want["parts"]
                else:
                    text = {"malformed": "{not json", "notgeometry": json.dumps({"not": "geojson"}), "suffix": json.dumps({"type": "Point", "coordinates": [1, 2]}),
                            "missing": ""}[e["bad"]]
                    e["type"], e["parts"] = "", []
                if e["via"] == "string":
                    arg = text
                else:
                    arg = str(work / f"g{k}.{e['via'].split('.', 1)[1]}")
                    if e.get("bad") != "missing":
                        open(arg, "w").write(text)
                try:
                    e["obs"] = {"ok": proj_geom_parts(cliutils.geometry_argument(arg))}
                except argparse.ArgumentTypeError:
                    e["obs"] = {"err": "ArgumentTypeError"}
                except Exception as ex:
                    e["obs"] = {"err": type(ex).__name__}
                e.pop("geom", None)
                rec["events"].append(e)
            return rec
        # ---- CLI
        import emsarray
        from emsarray.operations import geometry as geomops, point_extraction
        from emsarray.utils import to_netcdf_with_fixes
        w = case["world"]
        e = dict(case["events"][0])
        ds = W.build(w)
        inp = work / "input.nc"
        ds.to_netcdf(inp)
        cmd = e["cmd"]
        absent = {"absent": True}
        if cmd == "clip":
            out = work / "clipped.nc"
            if e["geomkind"] == "bounds":
                arg = ",".join(repr(v * SCALE) for v in e["bounds"])
            elif e["geomkind"] == "geojson":
                arg = json.dumps(geojson_degrees(e["geom"]))
            else:
                arg = e["text"]
            extra = []
            if e.get("prior_bounds"):
                # an earlier clip of another region was run with the same --work_dir (as when cutting a series of files)
                shared = work / "shared-work"; shared.mkdir()
                prior = ",".join(repr(v * SCALE) for v in e["prior_bounds"])
                run_cli(["clip", str(inp), prior, str(work / "earlier.nc"), "--work_dir", str(shared)], str(work))
                extra = ["--work_dir", str(shared)]
            code, msg = run_cli(["clip", str(inp), arg, str(out), *extra], str(work))
            e["obs"] = {"exit": code, "message": msg, "out": proj_nc(out) if out.exists() else absent}

            def lib():
                d = emsarray.open_dataset(inp)
                g = cliutils.geometry_argument(arg)
                wd = work / "libwork"; wd.mkdir()
                r = d.ems.clip(g, work_dir=wd)
                p = work / "lib.nc"
                r.to_netcdf(p)          # xarray's own writer: what the library call returned, as it stands
                return proj_nc(p)
            e["lib"] = outcome(lib) if e["request"] == "good" else {"err": "n/a"}
        elif cmd == "extract-points":
            out = work / "points.nc"
            csv = work / "points.csv"
            with open(csv, "w") as f:
                f.write("name,lon,lat\n")
                for k, p in enumerate(e["points"]):
                    f.write(f"s{p[0]}_{p[1]},{p[0] * SCALE!r},{p[1] * SCALE!r}\n")      # (a station listed twice gives two identical rows)
            argv = ["extract-points", str(inp), str(csv), str(out), "--missing-points", e["policy"]]
            if e.get("dim"):
                argv += ["-d", e["dim"]]
            code, msg = run_cli(argv, str(work))
            e["obs"] = {"exit": code, "message": msg, "out": proj_nc(out) if out.exists() else absent}

            def lib():
                import pandas
                d = emsarray.open_dataset(inp)
                df = pandas.read_csv(csv)
                kw = {"point_dimension": e["dim"]} if e.get("dim") else {}
                r = point_extraction.extract_dataframe(d, df, ("lon", "lat"), missing_points=e["policy"], **kw)
                p = work / "lib.nc"
                r.to_netcdf(p)          # xarray's own writer: what the library call returned, as it stands
                return proj_nc(p)
            e["lib"] = outcome(lib)
        else:
            out = work / ("geometry." + e["ext"] if e["ext"] else "geometry")
            argv = ["export-geometry", str(inp), str(out)] + (["-f", e["format"]] if e["format"] != "auto" else [])
            code, msg = run_cli(argv, str(work))
            fmt = e["format"] if e["format"] != "auto" else {"geojson": "geojson", "json": "geojson", "shp": "shapefile", "wkt": "wkt", "wkb": "wkb"}.get(e["ext"], "")
            written = out.exists() or (fmt == "shapefile" and out.with_suffix(".shp").exists())
            e["obs"] = {"exit": code, "message": msg,
                        "out": read_features(fmt, str(out)) if (written and fmt) else absent}

            def lib():
                d = emsarray.open_dataset(inp)
                p = work / "libgeom" / ("g." + e["ext"])
                p.parent.mkdir()
                {"geojson": geomops.write_geojson, "shapefile": geomops.write_shapefile, "wkt": geomops.write_wkt,
                 "wkb": geomops.write_wkb}[fmt](d, str(p))
                return read_features(fmt, str(p))
            e["lib"] = outcome(lib) if e["request"] == "good" else {"err": "n/a"}
        for k in ("geom", "bounds", "text", "prior_bounds"):
            e.pop(k, None)
        e.setdefault("points", [])
        rec["events"].append(e)
        return rec
    finally:
        shutil.rmtree(work, ignore_errors=True)
