"""Abstract supplied connectivity tables for a mesh (inputs for the concretiser; consistent by construction,
and re-checked by TLC's WorldConsistent clause)."""
from __future__ import annotations

import random


def supplied_tables(mesh: dict, rng: random.Random) -> dict:
    faces = mesh["faces"]
    pairs = []
    seen = set()
    for f in faces:
        for a, b in zip(f, f[1:] + f[:1]):
            k = frozenset((a, b))
            if k not in seen:
                seen.add(k); pairs.append((a, b))
    rng.shuffle(pairs)                               # non-canonical edge numbering: re-derivation is visible
    edges = [list(p if rng.random() < .5 else p[::-1]) for p in pairs]
    index = {frozenset(e): k for k, e in enumerate(edges)}
    face_edge = [[index[frozenset((a, b))] for a, b in zip(f, f[1:] + f[:1])] for f in faces]
    edge_face = [[] for _ in edges]
    for i, fe in enumerate(face_edge):
        for e in fe:
            edge_face[e].append(i)
    face_face = [[] for _ in faces]
    for ef in edge_face:
        if len(ef) == 2:
            a, b = ef
            if b not in face_face[a]:
                face_face[a].append(b)
            if a not in face_face[b]:
                face_face[b].append(a)
    # a boundary edge has one neighbouring face; files written as "face on the left, face on the right" put the missing
    # neighbour in either column
    edge_face = [([-1, ef[0]] if len(ef) == 1 and rng.random() < .5 else ef) for ef in edge_face]
    m = dict(mesh)
    m["edges"] = edges
    m["face_edge"] = face_edge
    m["edge_face"] = edge_face
    m["face_face"] = face_face
    return m


def padded(rows, width=None):
    width = width or max((len(r) for r in rows), default=0)
    return [list(r) + [-1] * (width - len(r)) for r in rows]
