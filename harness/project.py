"""Projection of implementation values onto the abstract (integer / string) domain.
Only conversions; no comparisons with expectations."""
from __future__ import annotations

import enum

import numpy

from .worlds import INEXACT, MISSING, NANQ, SCALE, f2q

BADINT = -999999


def as_int(x) -> int:
    """an int-like value -> int; anything else -> BADINT (so TLC compares ints with ints)"""
    if isinstance(x, bool):
        return BADINT
    if isinstance(x, (int, numpy.integer)):
        return int(x)
    if isinstance(x, (float, numpy.floating)) and float(x) == int(x):
        return BADINT   # a float where an int is required is a type change worth seeing
    return BADINT


def kind_name(k) -> str:
    if isinstance(k, enum.Enum):
        return str(k.value)
    if isinstance(k, str):
        return k
    return "?"


def native_index(conv_name: str, idx) -> list:
    """CF: [j, i]; Arakawa C: [kind, j, i]; UGRID: [kind, n]"""
    try:
        items = list(idx)
    except TypeError:
        return [BADINT]
    if conv_name in ("cf1d", "cf2d", "shoc_simple"):
        return [as_int(v) for v in items]
    if not items:
        return ["?"]
    return [kind_name(items[0])] + [as_int(v) for v in items[1:]]


def outcome(fn):
    """run fn(); {"ok": value} or {"err": exception class name}"""
    try:
        return {"ok": fn()}
    except Exception as e:      # the error class is the observation
        return {"err": type(e).__name__}


def polygon_vertices(poly) -> list:
    """shapely polygon -> [[x, y]...] in quanta without the closing vertex; None -> []"""
    if poly is None:
        return []
    coords = list(poly.exterior.coords)[:-1]
    return [[f2q(x), f2q(y)] for x, y in coords]
