"""
pytest plugin: record what the repository's OWN tests make emsarray do, as events for the trace specifications.

Loaded with  `-p harness.harvest_plugin`  (PYTHONPATH=/verif) and active only when EMSARRAY_VERIF_TRACE names an
output directory.  Nothing in /repo is edited: the listed public functions are wrapped from the outside at
pytest_configure (before the test modules are imported, so `from emsarray.x import f` in a test binds the wrapper).

A wrapper projects the arguments BEFORE the call, calls the real function, projects the result (or records the
exception) and appends one record  {"test", "w", "events": [...]}  in exactly the format the generated drivers
produce, so the same Trace_*.tla judges both.  The wrappers never judge anything.

  utils.ravel_dimensions / wind_dimension          -> c03.ndjson  (Trace_C03: URavel / UWind)
  masking.blur_mask / smear_mask                   -> c07.ndjson  (Trace_C07: Blur / Smear, idx = -1: not enumerated)
  operations.depth.normalize_depth_variables       -> c13.ndjson  (Trace_Depth: Normalize)
  operations.depth.ocean_floor                     -> c12.ndjson  (Trace_Depth: OceanFloor)
  utils.format_time_units_for_ems                  -> c17.ndjson  (Trace_C17: Format)
  cli.utils.bounds_argument / geometry_argument    -> c20.ndjson  (Trace_C20: BoundsArg / GeometryArg)
  conventions.ugrid.Mesh2DTopology derived tables  -> c10.ndjson  (Trace_C10: Tables), see _mesh_record
"""
from __future__ import annotations

import functools
import json
import os
import pathlib
import re
import threading

OUT = os.environ.get("EMSARRAY_VERIF_TRACE", "")
MAX_ELEMS = 6000
_state = {"test": "", "records": {}, "skipped": {}, "depth": threading.local()}
BADINT = -999999
MISSING = -1


def _emit(target: str, rec: dict) -> None:
    rec["test"] = _state["test"]
    _state["records"].setdefault(target, []).append(rec)


def _skip(target: str, why: str) -> None:
    k = f"{target}:{why}"
    _state["skipped"][k] = _state["skipped"].get(k, 0) + 1


def _outcome(fn):
    try:
        return {"ok": fn()}
    except Exception as e:       # what was raised is an observation
        return {"err": type(e).__name__}


class _Dict:
    """distinct values -> tags 1, 2, ... (NaN / masked -> MISSING); shared between the input and the output of a call"""

    def __init__(self):
        self.tags = {}

    def tag(self, v):
        import numpy
        if isinstance(v, float) and v != v:
            return MISSING
        if isinstance(v, (numpy.floating,)) and numpy.isnan(v):
            return MISSING
        key = (type(v).__name__, repr(v))
        if key not in self.tags:
            self.tags[key] = len(self.tags) + 1
        return self.tags[key]

    def array(self, da):
        import numpy
        vals = numpy.asarray(da.values)
        flat = vals.reshape(-1)
        if flat.dtype.kind == "f":
            data = [MISSING if v != v else self.tag(float(v)) for v in flat.tolist()]
        else:
            data = [self.tag(v) for v in flat.tolist()]
        return {"dims": [str(d) for d in da.dims], "shape": [int(s) for s in da.shape], "data": data,
                "dtype": da.dtype.str.lstrip("<>=|")}


def _wrap(module, name, make):
    real = getattr(module, name)
    if getattr(real, "__verif_wrapped__", False):
        return

    @functools.wraps(real)
    def wrapper(*a, **kw):
        d = _state["depth"]
        if getattr(d, "n", 0) > 0:          # a wrapped function calling another wrapped function: record the outer one only
            return real(*a, **kw)
        d.n = 1
        try:
            return make(real, *a, **kw)
        finally:
            d.n = 0
    wrapper.__verif_wrapped__ = True
    setattr(module, name, wrapper)


# ------------------------------------------------------------------------------------------------ C03
def _ravel(real, data_array, dimensions, linear_dimension=None):
    import xarray
    try:
        ok = isinstance(data_array, xarray.DataArray) and data_array.size <= MAX_ELEMS and data_array.size > 0 \
            and len(set(dimensions)) == len(list(dimensions)) and data_array.dtype.kind in "fiub"
    except Exception:
        ok = False
    if not ok:
        _skip("c03", "ravel-not-projectable")
        return real(data_array, dimensions, linear_dimension)
    D = _Dict()
    arr = D.array(data_array)
    dims = [str(d) for d in dimensions]
    sizes = [int(data_array.sizes[d]) if d in data_array.dims else 0 for d in dimensions]
    res = None

    def call():
        nonlocal res
        res = real(data_array, dimensions, linear_dimension)
        return D.array(res)
    obs = _outcome(call)
    _emit("c03", {"w": {"conv": "repo-tests", "G": {"kinds": [], "dims": {"none": []}, "shape": {"none": []}}},
                  "events": [{"a": "Load", "arr": arr, "lin": "", "kind": ""},
                             {"a": "URavel", "dims": dims, "sizes": sizes,
                              "name": "<default>" if linear_dimension is None else str(linear_dimension), "obs": obs}]})
    if "err" in obs:
        return real(data_array, dimensions, linear_dimension)      # re-raise what the real call raises
    return res


def _wind(real, data_array, dimensions, sizes, *, linear_dimension="index"):
    import numpy
    import xarray
    try:
        ok = isinstance(data_array, xarray.DataArray) and 0 < data_array.size <= MAX_ELEMS \
            and linear_dimension in data_array.dims and data_array.dtype.kind in "fiub" \
            and int(numpy.prod(list(sizes))) == data_array.sizes[linear_dimension] \
            and len(list(dimensions)) == len(list(sizes)) \
            and not (set(dimensions) & (set(data_array.dims) - {linear_dimension}))
    except Exception:
        ok = False
    if not ok:
        _skip("c03", "wind-outside-precondition")
        return real(data_array, dimensions, sizes, linear_dimension=linear_dimension)
    D = _Dict()
    arr = D.array(data_array)
    res = None

    def call():
        nonlocal res
        res = real(data_array, dimensions, sizes, linear_dimension=linear_dimension)
        return D.array(res)
    obs = _outcome(call)
    _emit("c03", {"w": {"conv": "repo-tests", "G": {"kinds": [], "dims": {"none": []}, "shape": {"none": []}}},
                  "events": [{"a": "Load", "arr": arr, "lin": str(linear_dimension), "kind": ""},
                             {"a": "UWind", "dims": [str(d) for d in dimensions], "sizes": [int(s) for s in sizes],
                              "mode": "dim", "pos": list(data_array.dims).index(linear_dimension) + 1, "obs": obs}]})
    if "err" in obs:
        return real(data_array, dimensions, sizes, linear_dimension=linear_dimension)
    return res


# ------------------------------------------------------------------------------------------------ C07
NOWORLD = {"conv": "none", "ny": 0, "nx": 0, "nface": 0, "nnode": 0, "nedge": -1, "geom": {"none": 0},
           "mesh": {"none": 0}, "vars": []}


def _rows(a):
    import numpy
    return [[bool(v) for v in r] for r in numpy.asarray(a).tolist()]


def _blur(real, arr, size=1):
    import numpy
    a = numpy.asarray(arr)
    if a.ndim != 2 or a.dtype != bool or a.size > 400 or a.size == 0 or not isinstance(size, int) or not 0 <= size <= 6:
        _skip("c07", "blur-not-projectable")
        return real(arr, size)
    m = _rows(a)
    res = None

    def call():
        nonlocal res
        res = real(arr, size)
        return _rows(res)
    obs = _outcome(call)
    _emit("c07", {"w": NOWORLD, "events": [{"a": "Blur", "h": a.shape[0], "w": a.shape[1], "idx": -1, "size": size,
                                            "group": "repo-tests", "m": m, "obs": obs}]})
    if "err" in obs:
        return real(arr, size)
    return res


def _smear(real, arr, pad_axes):
    import numpy
    a = numpy.asarray(arr)
    if a.ndim != 2 or a.dtype != bool or a.size > 400 or a.size == 0 or len(pad_axes) != 2:
        _skip("c07", "smear-not-projectable")
        return real(arr, pad_axes)
    m = _rows(a)
    res = None

    def call():
        nonlocal res
        res = real(arr, pad_axes)
        return _rows(res)
    obs = _outcome(call)
    _emit("c07", {"w": NOWORLD, "events": [{"a": "Smear", "h": a.shape[0], "w": a.shape[1], "idx": -1,
                                            "axes": [bool(x) for x in pad_axes], "group": "repo-tests", "m": m, "obs": obs}]})
    if "err" in obs:
        return real(arr, pad_axes)
    return res


# ------------------------------------------------------------------------------------------------ C12 / C13
def _depth_ints(vals):
    out = []
    for x in vals:
        x = float(x)
        if x != x:
            return None
        if x == int(x) and abs(x) < 2 ** 20:
            out.append(int(x))
        else:
            return None
    return out


def _scaled_depths(ds, names):
    """depth values as integers: as they are when integral, else in thousandths when that is exact"""
    import numpy
    allv = []
    for n in names:
        allv += numpy.asarray(ds[n].values, dtype=float).reshape(-1).tolist()
        b = ds[n].attrs.get("bounds")
        if b in ds.variables:
            allv += numpy.asarray(ds[b].values, dtype=float).reshape(-1).tolist()
    for scale in (1, 1000):
        if all(v == v and abs(v * scale) < 2 ** 20 and abs(v * scale - round(v * scale)) < 1e-9 for v in allv):
            return scale
    return None


def _proj_depths(ds, names, scale, with_bounds):
    import numpy
    depths = []
    for n in names:
        if n not in ds.variables or ds[n].ndim != 1:
            depths.append({"name": str(n), "dim": "", "vals": [], "positive": "", "bounds": []})
            continue
        v = ds[n]
        vals = [int(round(float(x) * scale)) for x in numpy.asarray(v.values, dtype=float).tolist()]
        bounds = []
        b = v.attrs.get("bounds")
        if with_bounds.get(n) and b in ds.variables:
            bounds = [[int(round(float(p) * scale)), int(round(float(q) * scale))]
                      for p, q in numpy.asarray(ds[b].values, dtype=float).tolist()]
        pos = v.attrs.get("positive", "")
        depths.append({"name": str(n), "dim": str(v.dims[0]), "vals": vals,
                       "positive": pos if isinstance(pos, str) else "?", "bounds": bounds})
    return depths


def _proj_vars(ds, names, D):
    out = []
    for n in names:
        if n in ds.variables:
            a = D.array(ds[n])
            out.append({"name": str(n), "dims": a["dims"], "shape": a["shape"], "data": a["data"]})
    return out


def _depth_inputs(dataset, depth_names):
    """what of the data set the specification's Depth module talks about, or None when it is outside its domain"""
    import numpy
    names = [n for n in depth_names]
    if not names or any(n not in dataset.variables or dataset[n].ndim != 1 or dataset[n].size < 2 for n in names):
        return None
    scale = _scaled_depths(dataset, names)
    if scale is None:
        return None
    with_bounds = {}
    for n in names:
        b = dataset[n].attrs.get("bounds")
        with_bounds[n] = bool(b in dataset.variables and dataset[b].ndim == 2 and dataset[b].shape == (dataset[n].size, 2))
    skip = set(names) | {dataset[n].attrs.get("bounds") for n in names}
    varnames = [str(n) for n in dataset.data_vars if n not in skip and dataset[n].dtype.kind in "fiub"]
    if sum(int(dataset[n].size) for n in varnames) > MAX_ELEMS:
        return None
    # one depth coordinate per dimension (the specification's CoordOfDim) and strictly monotonic values
    dims = [str(dataset[n].dims[0]) for n in names]
    if len(set(dims)) != len(dims):
        return None
    for n in names:
        v = numpy.asarray(dataset[n].values, dtype=float)
        d = numpy.diff(v)
        if not (numpy.all(d > 0) or numpy.all(d < 0)):
            return None
    return names, scale, with_bounds, varnames


def _normalize(real, dataset, depth_variables, *a, **kw):
    params = dict(zip(("positive_down", "deep_to_shallow"), a)); params.update(kw)
    opt = {None: "none", True: "yes", False: "no"}
    try:
        inp = _depth_inputs(dataset, list(depth_variables))
        pd = opt[params.get("positive_down")]; d2s = opt[params.get("deep_to_shallow")]
    except Exception:
        inp = None
    if inp is None:
        _skip("c13", "normalize-outside-domain")
        return real(dataset, depth_variables, *a, **kw)
    names, scale, with_bounds, varnames = inp
    D = _Dict()
    w = {"conv": "repo-tests", "nonspatial": [],
         "D": {"depths": _proj_depths(dataset, names, scale, with_bounds), "vars": _proj_vars(dataset, varnames, D)}}
    res = None

    def call():
        nonlocal res
        import warnings
        with warnings.catch_warnings():
            warnings.simplefilter("ignore")
            res = real(dataset, depth_variables, *a, **kw)
        return {"D": {"depths": _proj_depths(res, names, scale, with_bounds), "vars": _proj_vars(res, varnames, D)},
                "input": {"depths": _proj_depths(dataset, names, scale, with_bounds), "vars": _proj_vars(dataset, varnames, D)},
                "warned": False}
    obs = _outcome(call)
    _emit("c13", {"w": w, "events": [{"a": "Normalize", "pd": pd, "d2s": d2s, "via": "repo-tests", "obs": obs}]})
    # the test gets the real behaviour, warnings included
    return real(dataset, depth_variables, *a, **kw)


def _ocean_floor(real, dataset, depth_variables, *a, **kw):
    params = dict(zip(("non_spatial_variables",), a)); params.update(kw)
    try:
        inp = _depth_inputs(dataset, list(depth_variables))
        nonspatial = []
        for n in (params.get("non_spatial_variables") or []):
            nonspatial += [str(d) for d in dataset[n].dims]
    except Exception:
        inp = None
    if inp is None:
        _skip("c12", "ocean-floor-outside-domain")
        return real(dataset, depth_variables, *a, **kw)
    names, scale, with_bounds, varnames = inp
    D = _Dict()
    w = {"conv": "repo-tests", "nonspatial": nonspatial,
         "D": {"depths": _proj_depths(dataset, names, scale, with_bounds), "vars": _proj_vars(dataset, varnames, D)}}
    res = None

    def call():
        nonlocal res
        res = real(dataset, depth_variables, *a, **kw)
        return {"vars": _proj_vars(res, varnames, D), "alldims": [str(d) for d in res.dims],
                "allnames": [str(n) for n in res.variables], "polys": [], "conv": ""}
    obs = _outcome(call)
    _emit("c12", {"w": w, "events": [{"a": "OceanFloor", "via": "repo-tests", "inpolys": [], "inconv": "", "obs": obs}]})
    if "err" in obs:
        return real(dataset, depth_variables, *a, **kw)
    return res


# ------------------------------------------------------------------------------------------------ C17
UNITS_RE = re.compile(r"^(seconds|minutes|hours|days) since (\d{1,4})-(\d{1,2})-(\d{1,2})(?:[ T](\d{1,2}):(\d{2})(?::(\d{2}))?)?"
                      r"\s*(Z|[+-]\d{1,2}(?::?\d{2})?)?$")


def _format_units(real, units, *a, **kw):
    m = UNITS_RE.match(units) if isinstance(units, str) else None
    cal = kw.get("calendar", a[0] if a else "proleptic_gregorian")
    if not m or cal not in (None, "proleptic_gregorian", "standard", "gregorian"):
        _skip("c17", "units-not-readable")
        return real(units, *a, **kw)
    period, y, mo, d, hh, mi, ss, off = m.groups()
    o = 0
    if off and off != "Z":
        sign = -1 if off[0] == "-" else 1
        body = off[1:].replace(":", "")
        o = sign * (int(body[:-2]) * 60 + int(body[-2:])) if len(body) > 2 else sign * int(body) * 60
    ev = {"a": "Format", "period": period, "civil": [int(y), int(mo), int(d), int(hh or 0), int(mi or 0)], "sec": int(ss or 0),
          "off": o, "style": "repo-tests", "input": units}
    res = None

    def call():
        nonlocal res
        res = real(units, *a, **kw)
        return [ord(c) for c in res]
    ev["obs"] = _outcome(call)
    _emit("c17", {"w": NOWORLD, "events": [ev]})
    if "err" in ev["obs"]:
        return real(units, *a, **kw)
    return res


# ------------------------------------------------------------------------------------------------ C20
PLAIN_RE = re.compile(r"^[0-9eE ,._+\-]*$")


def _proj_geom(g):
    from shapely.geometry import mapping
    m = mapping(g)
    if m["type"] == "Polygon":
        def q(v):
            r = round(v * 1000)
            return int(r) if abs(v * 1000 - r) < 1e-6 else BADINT
        return {"type": "Polygon", "verts": [[q(x), q(y)] for x, y in m["coordinates"][0][:-1]]}
    return {"type": m["type"], "verts": []}


def _cli_arg(action):
    def make(real, s):
        if not isinstance(s, str) or len(s) > 80 or not PLAIN_RE.match(s):
            _skip("c20", "argument-not-plain")
            return real(s)
        res = None

        def call():
            nonlocal res
            res = real(s)
            return _proj_geom(res)
        obs = _outcome(call)
        _emit("c20", {"w": {"conv": "none"}, "events": [{"a": action, "s": [ord(c) for c in s], "obs": obs}]})
        if "err" in obs:
            return real(s)
        return res
    return make


# ------------------------------------------------------------------------------------------------ pytest hooks
def pytest_configure(config):
    if not OUT:
        return
    import emsarray  # noqa: F401
    from emsarray import masking, utils
    from emsarray.cli import utils as cli_utils
    from emsarray.operations import depth
    _wrap(utils, "ravel_dimensions", _ravel)
    _wrap(utils, "wind_dimension", _wind)
    _wrap(masking, "blur_mask", _blur)
    _wrap(masking, "smear_mask", _smear)
    _wrap(depth, "normalize_depth_variables", _normalize)
    _wrap(depth, "ocean_floor", _ocean_floor)
    _wrap(utils, "format_time_units_for_ems", _format_units)
    _wrap(cli_utils, "bounds_argument", _cli_arg("BoundsArg"))
    _wrap(cli_utils, "geometry_argument", _cli_arg("GeometryArg"))


def pytest_runtest_setup(item):
    _state["test"] = item.nodeid


def pytest_sessionfinish(session, exitstatus):
    if not OUT:
        return
    out = pathlib.Path(OUT)
    out.mkdir(parents=True, exist_ok=True)
    for target, recs in _state["records"].items():
        with open(out / f"{target}.ndjson", "w") as f:
            for r in recs:
                f.write(json.dumps(r, separators=(",", ":")) + "\n")
    (out / "summary.json").write_text(json.dumps({"records": {k: len(v) for k, v in _state["records"].items()},
                                                  "skipped": _state["skipped"], "exitstatus": int(exitstatus)}, indent=1))
