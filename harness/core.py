"""
The check orchestrator shared by all properties.

A property module (harness/props/cNN.py) provides

  ID, TITLE
  MC        list of (module, cfg) TLC model-checking runs per tier:  MC[tier] -> [(module, cfg, workers)]
  TRACE     (module, cfg) of the trace specification
  cases(tier, seed) -> list of case dicts  {"tid", "src", "w", "events": [{"a", args...}]}   (no observations)
  execute(case) -> the same dict with an "obs" in every event (what the implementation did)
  nontrivial(case) -> bool  (rule for distinct_nontrivial), RULE (text)
  SIGNATURES  optional {finding id: predicate(record, failing [(l, clause)...]) -> bool}
  ASSUMPTIONS list[str]

Python never compares an observation with an expectation: the verdict comes from TLC.
"""
from __future__ import annotations

import concurrent.futures
import hashlib
import importlib
import json
import os
import pathlib
import shutil
import sys
import time
import traceback

from . import tlc

VERIF = tlc.VERIF
# (runs against a deliberately changed tree - tools/prescreen.sh, seedcheck.sh, seedregress.sh - write their evidence elsewhere)
EVIDENCE = pathlib.Path(os.environ["VERIF_EVIDENCE_DIR"]) if os.environ.get("VERIF_EVIDENCE_DIR") else VERIF / "evidence"
REPLAYS = VERIF / "replays"
KNOWN = VERIF / "known_findings.json"


def load_known(pid: str) -> list[dict]:
    if not KNOWN.exists():
        return []
    data = json.loads(KNOWN.read_text())
    return [f for f in data.get("findings", []) if f["property"] == pid and f.get("status") == "known"]


def _exec_one(args):
    modname, case = args
    mod = importlib.import_module(modname)
    try:
        return mod.execute(case)
    except Exception:   # a crash of the driver itself is machinery, not a verdict
        return {"__driver_error__": traceback.format_exc(), "tid": case.get("tid")}


def run_cases(mod, cases: list[dict], jobs: int) -> list[dict]:
    if jobs <= 1 or len(cases) < 8:
        return [_exec_one((mod.__name__, c)) for c in cases]
    chunk = max(1, len(cases) // (jobs * 8))
    import multiprocessing
    ctx = multiprocessing.get_context("fork")
    with concurrent.futures.ProcessPoolExecutor(max_workers=jobs, mp_context=ctx) as ex:
        return list(ex.map(_exec_one, [(mod.__name__, c) for c in cases], chunksize=chunk))


def write_trace(records: list[dict], path: pathlib.Path) -> None:
    with open(path, "w") as f:
        for r in records:
            f.write(json.dumps(r, separators=(",", ":")) + "\n")


def case_key(case: dict) -> str:
    c = {k: v for k, v in case.items() if k not in ("tid",)}
    return hashlib.sha1(json.dumps(c, sort_keys=True).encode()).hexdigest()


def validate_total(mod, pid: str, records: list[dict], trace_path: pathlib.Path, work: pathlib.Path) -> dict:
    """Trace validation that stays total: when TLC cannot even evaluate the specification's clauses on some
    recorded observation (an array of the wrong shape, a missing field ...) the log is bisected and each record on
    which evaluation fails is reported with the clause `Unevaluable` -- what came back is outside the domain of the
    specification's operators, which is a rejection of that trace, not a failure of the machinery."""
    tmod, tcfg = mod.TRACE
    env = getattr(mod, "TRACE_ENV", None)
    try:
        return tlc.validate_trace(tmod, tcfg, trace_path, tag=f"{pid}-trace", env=env)
    except tlc.MachineryError as first:
        if "Error: The error occurred when TLC was evaluating" not in str(first) and "Error: Evaluating" not in str(first) \
                and "TLC threw an unexpected exception" not in str(first) and "TLC was unable to fingerprint" not in str(first):
            raise
        merged = {"records": len(records), "fails": [], "seen": [], "missing": [], "wall_s": 0.0, "tlc_states": 0,
                  "cmd": "bisected"}
        stack = [records]
        runs = 0
        while stack:
            chunk = stack.pop()
            runs += 1
            if runs > 60 + min(len(records) // 2, 240):
                raise first
            p = work / f"bisect-{runs}.ndjson"
            write_trace(chunk, p)
            try:
                v = tlc.validate_trace(tmod, tcfg, p, tag=f"{pid}-trace-b{runs}", env=env)
                merged["fails"] += v["fails"]
                merged["seen"] = sorted(set(merged["seen"]) | set(v.get("seen", [])))
                merged["wall_s"] += v["wall_s"]; merged["tlc_states"] += v["tlc_states"]
                for k, val in v.items():
                    if k not in merged:
                        merged[k] = val
            except tlc.MachineryError:
                if len(chunk) == 1:
                    merged["fails"].append([chunk[0]["tid"], 0, "Unevaluable"])
                else:
                    mid = len(chunk) // 2
                    stack.append(chunk[mid:]); stack.append(chunk[:mid])
        return merged


def check(mod, tier: str, seed: int, *, replay: str | None = None, report_as: str | None = None) -> int:
    pid = mod.ID
    rid = report_as or pid          # the property id violations are reported under
    t0 = time.time()
    work = tlc.WORK / pid / f"{tier}-{os.getpid()}"
    if work.exists():
        shutil.rmtree(work, ignore_errors=True)
    work.mkdir(parents=True, exist_ok=True)
    jobs = int(os.environ.get("VERIF_JOBS", "0")) or min(16, os.cpu_count() or 4)
    try:
        # ---------------------------------------------------------------- model checking (M)
        mc_results = []
        if replay is None:
            mc_pool = concurrent.futures.ThreadPoolExecutor(max_workers=4)
            mc_futs = [mc_pool.submit(tlc.model_check, e[0], e[1], workers=e[2], tag=f"{pid}-{e[0]}-{e[1]}-{k}",
                                      env=(e[3] if len(e) > 3 else None))
                       for k, e in enumerate(mod.MC[tier])]
            # inductive invariants (Apalache): unbounded-depth statements about a typed copy of a state machine
            ind_futs = [mc_pool.submit(tlc.apalache_check, e["module"], init=e["init"], inv=e["inv"], length=e["length"],
                                       cinit=e.get("cinit")) for e in getattr(mod, "INDUCTIVE", {}).get(tier, [])]
        # ---------------------------------------------------------------- executions (G) + (T)
        if replay is None:
            cases = mod.cases(tier, seed)
            # the thorough tier of the cheaper properties draws its generated cases from further seeds as well
            if tier == "thorough":
                have = {case_key(c) for c in cases}
                for k in range(1, 1 + int(getattr(mod, "THOROUGH_EXTRA_SEEDS", 0))):
                    for c in mod.cases(tier, seed + 1000 * k):
                        if case_key(c) not in have:
                            have.add(case_key(c)); cases.append(c)
        else:
            rep = json.loads(pathlib.Path(replay).read_text())
            cases = [rep["case"]]
        # the same questions asked AGAIN of the same objects at the end of a case (for drivers whose events are independent
        # of one another): whatever an object remembers between calls must not change its answers
        rep = int(getattr(mod, "REPEAT_EVENTS", 0))
        if rep and replay is None:
            import random as _random
            for c in cases:
                evs = c.get("events") or []
                if evs and not c.get("_repeated"):
                    r_ = _random.Random(len(evs) * 7919 + seed)
                    # (only questions are repeated: an event that CHANGES the dataset in place is part of the history)
                    pool = [e for e in evs if e.get("a") not in getattr(mod, "NO_REPEAT", ("Mutate", "SetPositive"))]
                    c["events"] = evs + [dict(e, again=True) for e in r_.sample(pool, min(rep, len(pool)))]
                    c["_repeated"] = True
        for k, c in enumerate(cases):
            c.setdefault("tid", k + 1)
        records = run_cases(mod, cases, jobs if getattr(mod, "PARALLEL", True) else 1)
        errs = [r for r in records if "__driver_error__" in r]
        if errs:
            print(f"MACHINERY-ERROR property={pid} driver crashed on {len(errs)} case(s); first:\n"
                  + errs[0]["__driver_error__"], file=sys.stderr)
            return 2
        trace_path = work / "trace.ndjson"
        write_trace(records, trace_path)
        tmod, tcfg = mod.TRACE
        verdict = validate_total(mod, pid, records, trace_path, work)
        if any("input" in r for r in records):
            # the generic clause InputUntouched (spec/Trace_Input.tla), judged by TLC on the same log
            vin = tlc.validate_trace("Trace_Input", "Trace_Input.cfg", trace_path, tag=f"{pid}-input")
            verdict["fails"] = list(verdict["fails"]) + list(vin["fails"])
            verdict["seen"] = sorted(set(verdict.get("seen", [])) | set(vin.get("seen", [])))
            verdict["tlc_states"] += vin["tlc_states"]; verdict["wall_s"] += vin["wall_s"]
        if replay is None:
            for f in mc_futs:
                mc_results.append(f.result())
            ind_results = [f.result() for f in ind_futs]
            mc_pool.shutdown()
        else:
            ind_results = []
        bad_mc = [r for r in mc_results if not r["ok"]]
        bad_mc += [dict(r, cfg=f"{r['init']}/{r['inv']}", violated="inductive invariant check failed") for r in ind_results if not r["ok"]]
        # ---------------------------------------------------------------- classify
        by_tid: dict[int, list] = {}
        for tid, l, clause in verdict["fails"]:
            by_tid.setdefault(int(tid), []).append((int(l), clause))
        # clauses named Domain* are markers for the known-findings matcher, never violations by themselves
        by_tid = {tid: fl for tid, fl in by_tid.items() if not all(c.startswith("Domain") for _, c in fl)}
        rec_by_tid = {r["tid"]: r for r in records}
        case_by_tid = {c["tid"]: c for c in cases}
        known = load_known(pid)
        sigs = getattr(mod, "SIGNATURES", {})
        known_hit: dict[str, int] = {}
        violations = []
        for tid, fl in sorted(by_tid.items()):
            rec = rec_by_tid[tid]
            matched = None
            for kf in known:
                pred = sigs.get(kf["id"])
                if pred is None:
                    continue
                if all(cl in kf["clauses"] for _, cl in fl) and pred(rec, fl):
                    matched = kf
                    break
            if matched:
                known_hit[matched["id"]] = known_hit.get(matched["id"], 0) + 1
                continue
            violations.append((tid, fl))
        rep_dir = REPLAYS / pid
        printed = 0
        if violations and replay is None:
            rep_dir.mkdir(parents=True, exist_ok=True)
        for tid, fl in violations[:25]:
            if replay is None:
                path = rep_dir / f"{tier}-{seed}-{tid}.json"
                path.write_text(json.dumps({"property": pid, "failing": [[l, c] for l, c in fl],
                                            "case": case_by_tid[tid], "record": rec_by_tid[tid]}, indent=1))
            else:
                path = pathlib.Path(replay)
            if printed < 25:
                clauses = sorted({c for _, c in fl})
                print(f"VIOLATION property={rid} replay={path}  clauses={','.join(clauses)}")
                printed += 1
        if len(violations) > printed:
            print(f"... {len(violations) - printed} more violating traces (first 25 replays written)")
        for kf in known:
            if kf["id"] in known_hit:
                print(f"KNOWN-FINDING: property={rid} {kf['id']} {kf['what']} ({known_hit[kf['id']]} traces)")
        for r in bad_mc:
            print(f"MACHINERY-ERROR property={pid} model checking {r['module']}/{r['cfg']} failed: "
                  f"{r.get('violated', 'see output')}\n{r.get('output_tail', '')[-1500:]}", file=sys.stderr)
        if replay is not None:
            rec = records[0]
            print(json.dumps({"record": rec, "failing": verdict["fails"]}, indent=1)[:20000])
            return 1 if violations else 0
        # ---------------------------------------------------------------- coverage obligations
        missing = list(verdict.get("missing", []))
        missing += [r for r in getattr(mod, "REQUIRED", []) if r not in verdict.get("seen", [])]
        verify = getattr(mod, "verify", None)
        if verify:
            missing += list(verify(tier, verdict))
        # ---------------------------------------------------------------- evidence
        keys = {}
        nontrivial = 0
        for c in cases:
            k = case_key(c)
            if k not in keys:
                keys[k] = True
                if mod.nontrivial(c):
                    nontrivial += 1
        n_events = sum(len(r.get("events", [])) for r in records)
        samples = []
        for r in records[:: max(1, len(records) // 3)][:3]:
            s = json.loads(json.dumps(r))
            if len(s.get("events", [])) > 6:
                s["events"] = s["events"][:6] + [f"... {len(r['events']) - 6} more events"]
            samples.append(s)
        ev = {
            "property_id": pid, "tier": tier, "seed": seed, "level": "model_checking",
            "coverage": {
                # (a sub-check without a model-checking run of its own reports the states of its trace-specification run)
                "states": sum(r["distinct"] for r in mc_results) if mc_results else verdict["tlc_states"],
                "transitions": sum(r["generated"] for r in mc_results) if mc_results else verdict["tlc_states"],
                "traces_validated_against_impl": verdict["records"] - len(by_tid),
                "samples": samples,
                "evaluations": n_events,
                "distinct_nontrivial": nontrivial,
                "rule": mod.RULE,
                "model_checking_runs": [{k: r[k] for k in ("module", "cfg", "ok", "generated", "distinct", "wall_s")
                                         if k in r} | ({"depth": r["depth"]} if "depth" in r else {})
                                        for r in mc_results],
                "trace_validation": {"module": tmod, "records": verdict["records"], "events": n_events,
                                     "tlc_states": verdict["tlc_states"], "wall_s": verdict["wall_s"],
                                     "rejected_records": len(by_tid), "seen": sorted(verdict.get("seen", [])),
                                     "coverage_missing": missing},
                "inductive_checks": [{k: r[k] for k in ("module", "init", "inv", "length", "ok", "wall_s")} for r in ind_results],
                "known_findings_matched": known_hit,
                "exhaustive": bool(getattr(mod, "EXHAUSTIVE", {}).get(tier, False)),
            },
            "assumptions": list(getattr(mod, "ASSUMPTIONS", [])),
            "wall_s": round(time.time() - t0, 2),
            "violations": len(violations),
        }
        extra = getattr(mod, "extra_evidence", None)
        if extra:
            ev["coverage"].update(extra(tier, cases, records, verdict))
        # further specifications this property is also decided against (e.g. whole sessions of EmsSystem)
        also_rc = 0
        for name in getattr(mod, "ALSO", {}).get(tier, []):
            sub = importlib.import_module(name)
            rc = check(sub, tier, seed, report_as=rid)
            also_rc = max(also_rc, rc)
            try:
                sub_ev = json.loads((EVIDENCE / f"{sub.ID}.json").read_text())
                ev["coverage"].setdefault("also", []).append({"module": name, "states": sub_ev["coverage"]["states"],
                                                               "traces_validated_against_impl": sub_ev["coverage"]["traces_validated_against_impl"],
                                                               "events": sub_ev["coverage"]["evaluations"], "violations": sub_ev.get("violations", 0)})
                if sub_ev["coverage"].get("model_checking_runs"):
                    ev["coverage"]["states"] += sub_ev["coverage"]["states"]
                    ev["coverage"]["transitions"] += sub_ev["coverage"]["transitions"]
                ev["coverage"]["traces_validated_against_impl"] += sub_ev["coverage"]["traces_validated_against_impl"]
                ev["violations"] += sub_ev.get("violations", 0)
            except Exception:
                pass
        ev["wall_s"] = round(time.time() - t0, 2)
        EVIDENCE.mkdir(exist_ok=True)
        (EVIDENCE / f"{pid}.json").write_text(json.dumps(ev, indent=1))
        if also_rc:
            return also_rc if not violations else 1
        if bad_mc:
            return 2
        if missing and not violations:
            # (with violations the coverage markers may be missing *because* the implementation deviated)
            print(f"MACHINERY-ERROR property={pid} coverage obligations not met: {missing}", file=sys.stderr)
            return 2
        status = "FAIL" if violations else "ok"
        print(f"{pid} {tier}: {status}  mc_states={ev['coverage']['states']} records={verdict['records']} "
              f"events={n_events} rejected={len(by_tid)} known={sum(known_hit.values())} wall={ev['wall_s']}s")
        return 1 if violations else 0
    except tlc.MachineryError as e:
        print(f"MACHINERY-ERROR property={pid} {e}", file=sys.stderr)
        return 2
    finally:
        shutil.rmtree(work, ignore_errors=True)
