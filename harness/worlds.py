"""
Abstract worlds and their concretisation into xarray datasets.

An abstract world is a JSON-able dict in which everything the TLA+ specification
reasons about is an integer (coordinates in quanta, values as tags) or a short
string.  `build(world)` turns it into a real `xarray.Dataset` for emsarray.
No expectation about emsarray's behaviour is computed here.

Coordinates: value_in_degrees = quanta * SCALE with SCALE a power of two, so that
all the arithmetic emsarray performs on generated coordinates (midpoints, means
of 2/3/4 multiples of 12) is exact in binary floating point.
"""
from __future__ import annotations

import itertools
import random
from typing import Any

import numpy
import xarray

import emsarray  # noqa: F401  (registers the .ems accessor)

SCALE = 2.0 ** -6
NANQ = 1000000          # "NaN" in quanta
MISSING = -1            # missing tag
INEXACT = 2 ** 30       # a coordinate that is not an integer number of quanta

STRUCTURED = ("cf1d", "cf2d", "shoc_simple", "shoc_standard", "arakawa")
ALL_CONVS = STRUCTURED + ("ugrid",)


def q2f(q):
    """quanta (nested lists / arrays, NANQ = nan) -> float array"""
    a = numpy.asarray(q, dtype=float)
    out = a * SCALE
    out[a == NANQ] = numpy.nan
    return out


def negzero(arr):
    """the same values with every second zero written as -0.0 (equal as numbers, different as bytes)"""
    arr = numpy.array(arr, dtype=float)
    flat = arr.reshape(-1)
    zeros = numpy.flatnonzero(flat == 0)
    flat[zeros[::2]] = -0.0
    return arr


def f2q(x) -> int:
    """float -> quanta; NaN -> NANQ; non-integral -> INEXACT.  No rounding."""
    x = float(x)
    if x != x:
        return NANQ
    v = x / SCALE
    if v != int(v) or abs(v) >= NANQ:
        return INEXACT
    return int(v)


# --------------------------------------------------------------------------- names
DEFAULT_NAMES = {
    "cf1d": {"lat": "lat", "lon": "lon", "ydim": "lat", "xdim": "lon"},
    "cf2d": {"lat": "lat", "lon": "lon", "ydim": "y", "xdim": "x"},
    "shoc_simple": {"lat": "latitude", "lon": "longitude", "ydim": "j", "xdim": "i"},
    "shoc_standard": {},
    "arakawa": {},
}

SHOC_STD_COORDS = {
    "face": ("y_centre", "x_centre"),
    "left": ("y_left", "x_left"),
    "back": ("y_back", "x_back"),
    "node": ("y_grid", "x_grid"),
}
ARAKAWA_PLAIN_COORDS = {
    "face": ("lat_c", "lon_c"),
    "left": ("lat_l", "lon_l"),
    "back": ("lat_b", "lon_b"),
    "node": ("lat_n", "lon_n"),
}
ARAKAWA_DIMS = {
    "face": ("j_centre", "i_centre"),
    "left": ("j_left", "i_left"),
    "back": ("j_back", "i_back"),
    "node": ("j_node", "i_node"),
}


def kinds_of(w) -> list[str]:
    c = w["conv"]
    if c in ("cf1d", "cf2d", "shoc_simple"):
        return ["face"]
    if c in ("shoc_standard", "arakawa"):
        return ["face", "left", "back", "node"]
    return ["face", "edge", "node"] if w.get("nedge", -1) >= 0 else ["face", "node"]


def kind_shape(w, kind) -> tuple[int, ...]:
    c = w["conv"]
    if c in ("cf1d", "cf2d", "shoc_simple"):
        return (w["ny"], w["nx"])
    if c in ("shoc_standard", "arakawa"):
        ny, nx = w["ny"], w["nx"]
        return {"face": (ny, nx), "left": (ny, nx + 1), "back": (ny + 1, nx), "node": (ny + 1, nx + 1)}[kind]
    return {"face": (w["nface"],), "edge": (w["nedge"],), "node": (w["nnode"],)}[kind]


def kind_dims(w, kind) -> tuple[str, ...]:
    """dimension names of a grid kind in the concrete dataset"""
    c = w["conv"]
    nm = w.get("names") or {}
    if c in ("cf1d", "cf2d", "shoc_simple"):
        d = dict(DEFAULT_NAMES[c]); d.update(nm)
        return (d["ydim"], d["xdim"])
    if c in ("shoc_standard", "arakawa"):
        dims = nm.get("dims") or ARAKAWA_DIMS
        return tuple(dims[kind])
    d = {"face": nm.get("face_dim", "nMesh2_face"), "edge": nm.get("edge_dim", "nMesh2_edge"),
         "node": nm.get("node_dim", "nMesh2_node")}
    return (d[kind],)


# ------------------------------------------------------------------ lattice geometry
def affine(kind: str):
    """lattice point (i, j) -> quanta.  Unit = 24 quanta so that centres (+12),
    means of four and of three neighbours stay integral."""
    U = 24
    if kind == "rect":
        return lambda i, j: (U * i, U * j)
    if kind == "skew":      # shear + rotation-like; orientation preserving, no symmetry between axes
        return lambda i, j: (U * (3 * i + j), U * (2 * j - i))
    if kind == "skew2":
        return lambda i, j: (U * (2 * i - j), U * (i + 3 * j))
    raise ValueError(kind)


def structured_geometry(conv: str, ny: int, nx: int, *, shape: str = "skew", bounds: bool = True,
                        holes: list[tuple[int, int]] | None = None, descending=(False, False),
                        nonuniform: bool = False, orphan_nodes: bool = False, rows: str = "chained", gap: int = 0) -> dict:
    """Abstract geometry (quanta) for a structured convention.

    Returns a dict with, depending on the convention:
      cf1d : xc[nx], yc[ny], optional xb[nx][2], yb[ny][2]
      cf2d / shoc_simple : xc[ny][nx], yc[ny][nx] (NANQ in holes), optional xb/yb[ny][nx][4]
      shoc_standard / arakawa : xg, yg [(ny+1)][(nx+1)] (NANQ around holes) and centres xc, yc,
                                 left / back coordinates
    """
    holes = [tuple(h) for h in (holes or [])]
    g: dict[str, Any] = {"shape": shape, "holes": [list(h) for h in holes]}
    if conv == "cf1d":
        U = 24
        # cell edges, then centres are the mid points (even quanta -> exact)
        if nonuniform:
            xe = list(itertools.accumulate([0] + [U * (1 + (k % 3)) for k in range(nx)]))
            ye = list(itertools.accumulate([0] + [U * (1 + ((k + 1) % 2)) for k in range(ny)]))
        else:
            xe = [U * k for k in range(nx + 1)]
            ye = [U * 2 * k for k in range(ny + 1)]   # different step in y: transposition is visible
        xe = [v + 48 for v in xe]
        ye = [v - 96 for v in ye]
        if descending[0]:
            xe = xe[::-1]
        if descending[1]:
            ye = ye[::-1]
        g["xc"] = [(xe[k] + xe[k + 1]) // 2 for k in range(nx)]
        g["yc"] = [(ye[k] + ye[k + 1]) // 2 for k in range(ny)]
        if bounds:
            g["xb"] = [[xe[k], xe[k + 1]] for k in range(nx)]
            g["yb"] = [[ye[k], ye[k + 1]] for k in range(ny)]
            if gap:
                # cells that do not touch: each stops `gap` quanta short of the edge it would share with the next one
                g["xb"] = [[a, b - gap if b > a else b + gap] for a, b in g["xb"]]
                g["yb"] = [[a, b - gap if b > a else b + gap] for a, b in g["yb"]]
            if rows == "minmax":
                # every row written (lower, upper) whatever the direction of the axis: on a descending axis the upper bound
                # of one row is NOT the lower bound of the next
                g["xb"] = [sorted(r) for r in g["xb"]]
                g["yb"] = [sorted(r) for r in g["yb"]]
        return g
    f = affine(shape if shape in ("rect", "skew", "skew2") else "skew")
    node = [[f(i, j) for i in range(nx + 1)] for j in range(ny + 1)]

    def mean(points):
        n = len(points)
        sx = sum(p[0] for p in points); sy = sum(p[1] for p in points)
        assert sx % n == 0 and sy % n == 0
        return (sx // n, sy // n)

    centre = [[mean([node[j][i], node[j][i + 1], node[j + 1][i + 1], node[j + 1][i]]) for i in range(nx)]
              for j in range(ny)]
    if conv in ("cf2d", "shoc_simple"):
        xc = [[centre[j][i][0] for i in range(nx)] for j in range(ny)]
        yc = [[centre[j][i][1] for i in range(nx)] for j in range(ny)]
        for (j, i) in holes:
            xc[j][i] = NANQ; yc[j][i] = NANQ
        g["xc"], g["yc"] = xc, yc
        if bounds:
            def corners(j, i, c):
                if (j, i) in holes:
                    return [NANQ] * 4
                return [node[j][i][c], node[j][i + 1][c], node[j + 1][i + 1][c], node[j + 1][i][c]]
            g["xb"] = [[corners(j, i, 0) for i in range(nx)] for j in range(ny)]
            g["yb"] = [[corners(j, i, 1) for i in range(nx)] for j in range(ny)]
        return g
    # Arakawa C: node grid; a hole is a face all of whose... we blank the face's centre and
    # every node that belongs only to holes (as SHOC does), so the hole has a NaN corner.
    wet = [[(j, i) not in holes for i in range(nx)] for j in range(ny)]

    def node_wet(j, i):
        if orphan_nodes and (j in (0, ny) or i in (0, nx)):
            # nodes on the rim keep their coordinates even when every cell they belong to is a hole ("orphan" nodes:
            # they have coordinates but are a corner of no complete cell)
            return True
        return any(0 <= jj < ny and 0 <= ii < nx and wet[jj][ii]
                   for jj in (j - 1, j) for ii in (i - 1, i))
    xg = [[node[j][i][0] if node_wet(j, i) else NANQ for i in range(nx + 1)] for j in range(ny + 1)]
    yg = [[node[j][i][1] if node_wet(j, i) else NANQ for i in range(nx + 1)] for j in range(ny + 1)]
    g["xg"], g["yg"] = xg, yg
    g["xc"] = [[centre[j][i][0] if wet[j][i] else NANQ for i in range(nx)] for j in range(ny)]
    g["yc"] = [[centre[j][i][1] if wet[j][i] else NANQ for i in range(nx)] for j in range(ny)]
    left = [[mean([node[j][i], node[j + 1][i]]) for i in range(nx + 1)] for j in range(ny)]
    back = [[mean([node[j][i], node[j][i + 1]]) for i in range(nx)] for j in range(ny + 1)]
    g["xl"] = [[p[0] for p in row] for row in left]; g["yl"] = [[p[1] for p in row] for row in left]
    g["xk"] = [[p[0] for p in row] for row in back]; g["yk"] = [[p[1] for p in row] for row in back]
    return g


# ------------------------------------------------------------------------ meshes
def mesh_from_squares(cells: list[list[str]], *, shape: str = "skew") -> dict:
    """The lattice mesh family: a h x w array of unit squares, each one of
      Q quad, A two triangles (diagonal ll-ur), B two triangles (diagonal lr-ul), N absent,
      H left half of a 2x1 hexagon with collinear mid vertices (the square to its right must be h),
    nodes numbered in row-major order of the lattice points actually used, faces in row-major
    order of their squares.  All faces counter-clockwise in lattice coordinates.
    Returns {"nodes": [[x, y]...] (quanta), "faces": [[node...]...] }."""
    h = len(cells); wd = len(cells[0])
    faces_pts: list[list[tuple[int, int]]] = []
    for j in range(h):
        for i in range(wd):
            c = cells[j][i]
            ll, lr, ur, ul = (i, j), (i + 1, j), (i + 1, j + 1), (i, j + 1)
            if c == "Q":
                faces_pts.append([ll, lr, ur, ul])
            elif c == "A":
                faces_pts.append([ll, lr, ur]); faces_pts.append([ll, ur, ul])
            elif c == "B":
                faces_pts.append([ll, lr, ul]); faces_pts.append([lr, ur, ul])
            elif c == "H":
                assert i + 1 < wd and cells[j][i + 1] == "h"
                faces_pts.append([ll, lr, (i + 2, j), (i + 2, j + 1), ur, ul])
            elif c in ("N", "h"):
                pass
            else:
                raise ValueError(c)
    return mesh_from_faces(faces_pts, shape=shape)


def mesh_from_faces(faces_pts, *, shape: str = "skew", node_order: str = "rowmajor") -> dict:
    f = affine(shape)
    used = sorted({p for face in faces_pts for p in face}, key=lambda p: (p[1], p[0]))
    if node_order == "firstuse":
        seen = []
        for face in faces_pts:
            for p in face:
                if p not in seen:
                    seen.append(p)
        used = seen
    index = {p: k for k, p in enumerate(used)}
    return {
        "nodes": [list(f(p[0], p[1])) for p in used],
        "faces": [[index[p] for p in face] for face in faces_pts],
        "lattice": [list(p) for p in used],
    }


def mesh_edges(faces: list[list[int]]) -> list[tuple[int, int]]:
    """Undirected edges of a mesh in order of first appearance (one canonical choice; the
    specification treats derived numbering as free)."""
    out: list[tuple[int, int]] = []
    seen = set()
    for face in faces:
        for a, b in zip(face, face[1:] + face[:1]):
            key = frozenset((a, b))
            if key not in seen:
                seen.add(key); out.append((a, b))
    return out


def random_mesh(rng: random.Random, wd: int, h: int, *, shape="skew", p_absent=0.1, big=True) -> dict:
    """Random member of an extended lattice family: quads, triangle pairs, 2x1 hexagons with
    collinear vertices, L-shaped concave hexagons (3 squares), absent squares."""
    taken = [[False] * wd for _ in range(h)]
    faces: list[list[tuple[int, int]]] = []
    for j in range(h):
        for i in range(wd):
            if taken[j][i]:
                continue
            r = rng.random()
            ll, lr, ur, ul = (i, j), (i + 1, j), (i + 1, j + 1), (i, j + 1)
            if r < p_absent:
                taken[j][i] = True
                continue
            if big and r < p_absent + 0.12 and i + 1 < wd and not taken[j][i + 1]:
                taken[j][i] = taken[j][i + 1] = True
                faces.append([ll, lr, (i + 2, j), (i + 2, j + 1), ur, ul])
                continue
            if big and r < p_absent + 0.22 and i + 1 < wd and j + 1 < h and not taken[j][i + 1] \
                    and not taken[j + 1][i]:
                # L shape: squares (j,i), (j,i+1), (j+1,i): concave, 8 lattice vertices
                taken[j][i] = taken[j][i + 1] = taken[j + 1][i] = True
                pts = [ll, lr, (i + 2, j), (i + 2, j + 1), ur, (i + 1, j + 2), (i, j + 2), ul]
                if rng.random() < 0.5:
                    # drop the collinear vertices -> 6 vertices
                    pts = [ll, (i + 2, j), (i + 2, j + 1), ur, (i + 1, j + 2), (i, j + 2)]
                faces.append(pts)
                continue
            taken[j][i] = True
            r2 = rng.random()
            if r2 < 0.45:
                faces.append([ll, lr, ur, ul])
            elif r2 < 0.7:
                faces.append([ll, lr, ur]); faces.append([ll, ur, ul])
            else:
                faces.append([ll, lr, ul]); faces.append([lr, ur, ul])
    if not faces:
        faces.append([(0, 0), (1, 0), (1, 1), (0, 1)])
    # random winding per face, random start vertex
    out = []
    for face in faces:
        k = rng.randrange(len(face))
        face = face[k:] + face[:k]
        if rng.random() < 0.3:
            face = face[::-1]
        out.append(face)
    return mesh_from_faces(out, shape=shape)


# ------------------------------------------------------------------------ variables
def add_variables(w: dict, specs: list[dict]) -> None:
    """specs: [{"name", "kind" (grid kind or None), "dims": explicit order using "@0","@1" for the grid
    dimensions and extra-dimension names, "dtype", "base", "missing": [flat positions]}]"""
    w["vars"] = specs


def var_dims_shape(w: dict, v: dict) -> tuple[list[str], list[int]]:
    extras = {e["name"]: e["size"] for e in w.get("extras", [])}
    dims, shape = [], []
    gd = kind_dims(w, v["kind"]) if v.get("kind") else ()
    gs = kind_shape(w, v["kind"]) if v.get("kind") else ()
    for d in v["dims"]:
        if d.startswith("@"):
            k = int(d[1:]); dims.append(gd[k]); shape.append(gs[k])
        else:
            dims.append(d); shape.append(extras[d])
    return dims, shape


def var_array(w: dict, v: dict) -> xarray.DataArray:
    dims, shape = var_dims_shape(w, v)
    n = int(numpy.prod(shape)) if shape else 1
    dtype = v.get("dtype", "f8")
    isfloat = numpy.dtype(dtype).kind == "f"
    data = (numpy.arange(n) + v.get("base", 0)).astype("f8" if isfloat else dtype)
    attrs = dict(v.get("attrs", {}))
    miss = v.get("missing", [])
    if miss:
        if isfloat:
            data[miss] = numpy.nan
        else:
            fill = v["fill"]
            data[miss] = fill
    data = data.astype(dtype).reshape(shape)
    if v.get("fillattr"):
        attrs[v["fillattr"]] = numpy.dtype(dtype).type(v["fill"])
    if v.get("forder"):
        data = numpy.asfortranarray(data)       # the same values held in Fortran-ordered memory
    da = xarray.DataArray(data, dims=dims, attrs=attrs)
    if v.get("encoding"):
        da.encoding.update(v["encoding"])        # on-disk representation (takes effect when the dataset is written)
    return da


# ------------------------------------------------------------------------ builders
def build(w: dict) -> xarray.Dataset:
    conv = w["conv"]
    if conv == "ugrid":
        ds = _build_ugrid(w)
    elif conv == "cf1d":
        ds = _build_cf1d(w)
    elif conv in ("cf2d", "shoc_simple"):
        ds = _build_cf2d(w)
    else:
        ds = _build_arakawa(w)
    for e in w.get("extras", []):
        if e.get("coord"):
            c = e["coord"]
            if c.get("kind") == "time":
                vals = numpy.datetime64(c.get("epoch", "2000-01-01T00:00:00"), "ns") + \
                    numpy.asarray(c["values"], dtype="int64") * numpy.timedelta64(int(c.get("step_minutes", 60)), "m")
                da = xarray.DataArray(vals, dims=[e["name"]], attrs=c.get("attrs", {}))
                da.encoding.update(c.get("encoding", {"units": "hours since 1990-01-01 00:00:00", "calendar": "proleptic_gregorian"}))
            else:
                da = xarray.DataArray(numpy.asarray(c["values"], dtype=c.get("dtype", "f8")), dims=[e["name"]],
                                      attrs=c.get("attrs", {}))
            ds = ds.assign_coords({c["name"]: da})
            if c.get("encoding") is not None or c.get("kind") == "time":
                ds[c["name"]].encoding.update(da.encoding)
    for v in w.get("vars", []):
        if v.get("late"):
            continue                      # added later, in place (see cellsdrv Mutate)
        ds[v["name"]] = var_array(w, v)
    if w.get("auxtime"):
        # a second time-like variable along the time dimension, counted in another unit from another epoch
        te = next(e for e in w.get("extras", []) if (e.get("coord") or {}).get("kind") == "time")
        tv = ds[te["coord"]["name"]]
        aux = xarray.DataArray(tv.values + numpy.timedelta64(90, "m"), dims=tv.dims, attrs={"long_name": "valid time"})
        aux.encoding.update({"units": "minutes since 2001-03-01 00:00:00", "calendar": "proleptic_gregorian"})
        ds["valid_time"] = aux
        ds["valid_time"].encoding.update(aux.encoding)
    if w.get("dim_labels"):
        # index coordinates on the grid dimensions whose labels are NOT the positions (cell ids 10, 20, 30 ...)
        kinds = {"ugrid": ("face", "edge", "node"), "shoc_standard": ("face", "left", "back", "node"),
                 "arakawa": ("face", "left", "back", "node")}.get(conv, ("face",))
        for kind in kinds:
            try:
                dims_ = kind_dims(w, kind)
            except Exception:
                continue
            for d in dims_:
                if d in ds.sizes and d not in ds.variables:
                    ds = ds.assign_coords({d: (d, (numpy.arange(ds.sizes[d], dtype="int64") + 1) * 10)})
    first = w.get("first_var")
    if first and first in ds.data_vars:
        # the same dataset with this variable declared first: the dataset's own dimension order (dataset.sizes) then
        # follows that variable's dimensions (e.g. x before y), as in files whose first variable is stored (x, y)
        attrs, enc = dict(ds.attrs), dict(ds.encoding)
        ds = xarray.Dataset({first: ds[first].variable}).merge(ds)
        ds.attrs.update(attrs); ds.encoding.update(enc)
    cenc = w.get("coordenc")
    if cenc:
        # on-disk encoding of the coordinate variables (takes effect when the dataset is written): a finite fill value
        # marking the cells without coordinates, or integers packed with scale_factor = one quantum (exact)
        names = [n for n in ds.variables if ds[n].attrs.get("units") in ("degrees_north", "degrees_east") and ds[n].dtype.kind == "f"]
        names += [ds[n].attrs["bounds"] for n in list(names) if ds[n].attrs.get("bounds") in ds.variables]
        for n in names:
            if cenc == "fill":
                ds[n].encoding.update({"_FillValue": -999.0})
            elif cenc == "packed":
                ds[n].encoding.update({"dtype": "int32", "scale_factor": SCALE, "_FillValue": -2147483647})
    return ds


def _geom(w):
    if "geom" in w and w["geom"]:
        return w["geom"]
    return structured_geometry(w["conv"], w["ny"], w["nx"])


def _build_cf1d(w):
    g = _geom(w)
    nm = dict(DEFAULT_NAMES["cf1d"]); nm.update(w.get("names") or {})
    lat_attrs = {"units": "degrees_north", "standard_name": "latitude"}
    lon_attrs = {"units": "degrees_east", "standard_name": "longitude"}
    data_vars = {}
    if "xb" in g:
        lat_attrs["bounds"] = nm.get("lat_bounds", "lat_bnds")
        lon_attrs["bounds"] = nm.get("lon_bounds", "lon_bnds")
        nz = negzero if w.get("negzero") else (lambda a: a)
        data_vars[lat_attrs["bounds"]] = xarray.DataArray(nz(q2f(g["yb"])), dims=[nm["ydim"], "bnds"])
        data_vars[lon_attrs["bounds"]] = xarray.DataArray(nz(q2f(g["xb"])), dims=[nm["xdim"], "bnds"])
    # (coord_dtype: whole-degree axes are sometimes stored as integers)
    cdt = w.get("coord_dtype", "f8")
    lat = xarray.DataArray(numpy.asarray(q2f(g["yc"])).astype(cdt), dims=[nm["ydim"]], attrs=lat_attrs)
    lon = xarray.DataArray(numpy.asarray(q2f(g["xc"])).astype(cdt), dims=[nm["xdim"]], attrs=lon_attrs)
    if w.get("coords_as", "coords") == "coords":
        ds = xarray.Dataset(data_vars=data_vars, coords={nm["lat"]: lat, nm["lon"]: lon})
    else:
        data_vars[nm["lat"]] = lat; data_vars[nm["lon"]] = lon
        ds = xarray.Dataset(data_vars=data_vars)
    ds.attrs["Conventions"] = "CF-1.4"
    return ds


def _build_cf2d(w):
    g = _geom(w)
    conv = w["conv"]
    nm = dict(DEFAULT_NAMES[conv]); nm.update(w.get("names") or {})
    dims = [nm["ydim"], nm["xdim"]]
    lat_attrs = {"units": "degrees_north", "standard_name": "latitude"}
    lon_attrs = {"units": "degrees_east", "standard_name": "longitude"}
    data_vars = {}
    if "xb" in g:
        lat_attrs["bounds"] = nm.get("lat_bounds", "lat_bnds")
        lon_attrs["bounds"] = nm.get("lon_bounds", "lon_bnds")
        nz = negzero if w.get("negzero") else (lambda a: a)
        data_vars[lat_attrs["bounds"]] = xarray.DataArray(nz(q2f(g["yb"])), dims=dims + ["bnds"])
        data_vars[lon_attrs["bounds"]] = xarray.DataArray(nz(q2f(g["xb"])), dims=dims + ["bnds"])
    if w.get("decoy_bounds"):
        # a bounds variable of the right shape on the wrong dimensions (square grids): element [i][j] holds the corners of
        # cell (j, i), i.e. the true bounds transposed - see geoworlds round 13
        import numpy
        db = w["decoy_bounds"]
        ddims = [nm["xdim"], nm["ydim"], "bnds"] if db["how"] == "swapped" else ["decoy_a", "decoy_b", "decoy_c"]
        lat_attrs["bounds"] = nm.get("lat_bounds", "lat_bnds")
        lon_attrs["bounds"] = nm.get("lon_bounds", "lon_bnds")
        data_vars[lat_attrs["bounds"]] = xarray.DataArray(numpy.ascontiguousarray(numpy.transpose(q2f(db["geom"]["yb"]), (1, 0, 2))), dims=ddims)
        data_vars[lon_attrs["bounds"]] = xarray.DataArray(numpy.ascontiguousarray(numpy.transpose(q2f(db["geom"]["xb"]), (1, 0, 2))), dims=ddims)
    lat = xarray.DataArray(q2f(g["yc"]), dims=dims, attrs=lat_attrs)
    lon = xarray.DataArray(q2f(g["xc"]), dims=dims, attrs=lon_attrs)
    if w.get("coords_as", "coords") == "coords":
        ds = xarray.Dataset(data_vars=data_vars, coords={nm["lat"]: lat, nm["lon"]: lon})
    else:
        data_vars[nm["lat"]] = lat; data_vars[nm["lon"]] = lon
        ds = xarray.Dataset(data_vars=data_vars)
    ds.attrs["Conventions"] = "CF-1.4"
    if conv == "shoc_simple":
        ds.attrs["ems_version"] = "v1.2.3 fake"
    return ds


def arakawa_coord_names(w) -> dict:
    if w["conv"] == "shoc_standard":
        return SHOC_STD_COORDS
    return (w.get("names") or {}).get("coords") or ARAKAWA_PLAIN_COORDS


def _build_arakawa(w):
    g = _geom(w)
    names = arakawa_coord_names(w)
    dims = {k: kind_dims(w, k) for k in ("face", "left", "back", "node")}
    arrays = {
        "face": (g["yc"], g["xc"]), "left": (g["yl"], g["xl"]),
        "back": (g["yk"], g["xk"]), "node": (g["yg"], g["xg"]),
    }
    coords = {}
    for kind, (ya, xa) in arrays.items():
        yn, xn = names[kind]
        coords[yn] = xarray.DataArray(q2f(ya), dims=dims[kind], attrs={"units": "degrees_north"})
        coords[xn] = xarray.DataArray(q2f(xa), dims=dims[kind], attrs={"units": "degrees_east"})
        if w.get("x_transposed") and kind in w["x_transposed"]:
            # the longitudes of this grid stored (i, j) while the latitudes are stored (j, i): same labels, other storage order
            coords[xn] = xarray.DataArray(q2f(xa).T, dims=list(dims[kind])[::-1], attrs={"units": "degrees_east"})
        if w.get("lon_dtype"):
            # longitudes on whole degrees stored in an integer (or single precision) type, latitudes left as doubles
            narrow = coords[xn].values.astype(w["lon_dtype"])
            keep = numpy.isnan(coords[xn].values) if numpy.dtype(w["lon_dtype"]).kind == "f" else numpy.zeros(narrow.shape, bool)
            if not ((narrow == coords[xn].values) | keep).all():
                raise ValueError("longitudes are not representable in " + w["lon_dtype"])
            coords[xn] = xarray.DataArray(narrow, dims=dims[kind], attrs={"units": "degrees_east"})
    if w.get("coords_as", "coords") == "coords":
        ds = xarray.Dataset(coords=coords)
    else:
        ds = xarray.Dataset(data_vars=coords)
    ds.attrs["Conventions"] = "CF-1.4"
    if w["conv"] == "shoc_standard":
        ds.attrs["ems_version"] = "v1.2.3 fake"
    return ds


def _build_ugrid(w):
    m = w["mesh"]
    enc = w.get("enc") or {}
    base = enc.get("base", 0)
    fillmode = enc.get("fill", "intfill")       # intfill | nan | none
    nm = w.get("names") or {}
    face_dim = nm.get("face_dim", "nMesh2_face"); node_dim = nm.get("node_dim", "nMesh2_node")
    edge_dim = nm.get("edge_dim", "nMesh2_edge"); max_dim = nm.get("max_dim", "nMaxMesh2_face_nodes")
    two = nm.get("two_dim", "Two")
    nodes = m["nodes"]; faces = m["faces"]
    maxn = max(len(f) for f in faces)
    maxn = max(maxn, enc.get("pad_to", 0))
    nface = len(faces); nnode = len(nodes)
    FILL = int(enc.get("fillvalue", 999999))      # e.g. 0 with one-based indexes, -1 with zero-based ones
    if "index_dtype" in enc and "fillvalue" not in enc:
        FILL = int(numpy.iinfo(enc["index_dtype"]).max)     # tables stored in a narrow integer type

    def table(rows, width, primary_dim, secondary_dim, *, transposed=False, name=None, role=None):
        ragged = any(len(r) < width for r in rows)
        arr = numpy.full((len(rows), width), FILL, dtype=enc.get("index_dtype", "i4"))
        for r, row in enumerate(rows):
            for c, val in enumerate(row):
                if val is not None and val >= 0:
                    arr[r, c] = val + base
        needs_fill = bool((arr == FILL).any())
        attrs = {"cf_role": role, "start_index": numpy.int32(base)} if True else {}
        if base == 0 and enc.get("omit_start_index", False):
            attrs.pop("start_index")
        mode = fillmode
        if mode == "none" and needs_fill:
            mode = "intfill"
        if mode == "nan":
            data = arr.astype("f8"); data[arr == FILL] = numpy.nan
        else:
            data = arr
            if mode == "intfill":
                attrs["_FillValue"] = numpy.dtype(enc.get("index_dtype", "i4")).type(FILL)
        dims = [primary_dim, secondary_dim]
        if transposed:
            data = data.T; dims = dims[::-1]
        return xarray.DataArray(data, dims=dims, attrs=attrs)

    mesh_attrs = {
        "cf_role": "mesh_topology", "topology_dimension": 2,
        "node_coordinates": "Mesh2_node_x Mesh2_node_y",
        "face_node_connectivity": "Mesh2_face_nodes",
    }
    tr = bool(enc.get("transposed", False))
    data_vars: dict[str, Any] = {}
    data_vars["Mesh2_face_nodes"] = table(faces, maxn, face_dim, max_dim, transposed=tr, role="face_node_connectivity")
    if tr or enc.get("declare_face_dim", False):
        mesh_attrs["face_dimension"] = face_dim
    supplied = set(enc.get("supplied", []))
    edges = m.get("edges")
    edge_mode = enc.get("edge_dim", "absent")     # declared | implied | absent
    if edges is None and (supplied & {"en", "fe", "ef"} or edge_mode != "absent"):
        raise ValueError("mesh has no edge list")
    if "en" in supplied:
        data_vars["Mesh2_edge_nodes"] = table([list(e) for e in edges], 2, edge_dim, two, transposed=tr, role="edge_node_connectivity")
        mesh_attrs["edge_node_connectivity"] = "Mesh2_edge_nodes"
    if "fe" in supplied:
        data_vars["Mesh2_face_edges"] = table(m["face_edge"], maxn, face_dim, max_dim, transposed=tr, role="face_edge_connectivity")
        mesh_attrs["face_edge_connectivity"] = "Mesh2_face_edges"
    if "ef" in supplied:
        data_vars["Mesh2_edge_faces"] = table(m["edge_face"], 2, edge_dim, two, transposed=tr, role="edge_face_connectivity")
        mesh_attrs["edge_face_connectivity"] = "Mesh2_edge_faces"
    if "ff" in supplied:
        data_vars["Mesh2_face_links"] = table(m["face_face"], maxn, face_dim, max_dim, transposed=tr, role="face_face_connectivity")
        mesh_attrs["face_face_connectivity"] = "Mesh2_face_links"
    if edge_mode == "declared":
        mesh_attrs["edge_dimension"] = edge_dim
    nx = xarray.DataArray(q2f([p[0] for p in nodes]), dims=[node_dim], attrs={"units": "degrees_east", "standard_name": "longitude"})
    ny = xarray.DataArray(q2f([p[1] for p in nodes]), dims=[node_dim], attrs={"units": "degrees_north", "standard_name": "latitude"})
    coords = {}
    if enc.get("coords_as", "plain") == "coords":
        coords["Mesh2_node_x"] = nx; coords["Mesh2_node_y"] = ny
    else:
        data_vars["Mesh2_node_x"] = nx; data_vars["Mesh2_node_y"] = ny
    if m.get("face_centres"):
        fx = xarray.DataArray(q2f([p[0] for p in m["face_centres"]]), dims=[face_dim])
        fy = xarray.DataArray(q2f([p[1] for p in m["face_centres"]]), dims=[face_dim])
        mesh_attrs["face_coordinates"] = "Mesh2_face_x" + enc.get("coord_sep", " ") + "Mesh2_face_y"
        if enc.get("coords_as", "plain") == "coords":
            coords["Mesh2_face_x"] = fx; coords["Mesh2_face_y"] = fy
        else:
            data_vars["Mesh2_face_x"] = fx; data_vars["Mesh2_face_y"] = fy
    if enc.get("coord_sep") and enc.get("coord_sep_nodes", True):
        # CF blank-separated lists may be separated by any amount of white space
        mesh_attrs["node_coordinates"] = "Mesh2_node_x" + enc["coord_sep"] + "Mesh2_node_y"
    if enc.get("dangling_en") and "edge_node_connectivity" not in mesh_attrs:
        # the attribute names an edge-node variable the file does not contain (a quirk the library documents and tolerates)
        mesh_attrs["edge_node_connectivity"] = "Mesh2_edge_nodes"
    data_vars["Mesh2"] = xarray.DataArray(numpy.int32(0), attrs=mesh_attrs)
    ds = xarray.Dataset(data_vars=data_vars, coords=coords)
    ds.attrs["Conventions"] = "UGRID-1.0"
    if enc.get("conn_as_coords"):
        # optional connectivity tables flagged as coordinates (set_coords, or a `coordinates` attribute naming them)
        ds = ds.set_coords([n for n in enc["conn_as_coords"] if n in ds.variables])
    return ds


# -------------------------------------------------------------------------- opening
def bind(w: dict, ds: xarray.Dataset):
    """Return the convention object emsarray itself chooses (detected), except for plain
    Arakawa C which has to be constructed by hand."""
    if w.get("decoy"):
        # earlier in the same process a look-alike was asked for its convention: the same variables on the same dimensions,
        # without the global attributes that mark the convention.  What is decided for THIS dataset depends on it alone.
        look_alike = ds.copy()
        look_alike.attrs = {k: v for k, v in ds.attrs.items() if k not in ("ems_version", "Conventions")}
        try:
            import emsarray
            emsarray.get_dataset_convention(look_alike)
            look_alike.ems
        except Exception:
            pass
    if w.get("decoy") and w["conv"] == "shoc_standard":
        # ... and a SHOC standard file with RENAMED coordinate variables was handled by passing the names explicitly
        try:
            from emsarray.conventions.shoc import ShocStandard
            renamed = ds.copy().rename({n: "r_" + n for pair in SHOC_STD_COORDS.values() for n in pair})
            ShocStandard(renamed, coordinate_names={k: ("r_" + a, "r_" + b) for k, (a, b) in SHOC_STD_COORDS.items()})
        except Exception:
            pass
    if w.get("bind") == "explicit" and w["conv"] in ("cf1d", "cf2d"):
        # the convention object made by hand with the coordinate variables named explicitly, then bound
        from emsarray.conventions.grid import CFGrid1D, CFGrid2D
        nm = dict(DEFAULT_NAMES[w["conv"]]); nm.update(w.get("names") or {})
        conv = (CFGrid1D if w["conv"] == "cf1d" else CFGrid2D)(ds, latitude=nm["lat"], longitude=nm["lon"])
        conv.bind()
        return conv
    if w["conv"] == "arakawa":
        from emsarray.conventions.arakawa_c import ArakawaC
        names = arakawa_coord_names(w)
        # the caller's mapping lists the grid kinds in whatever order the caller likes
        order = [["face", "left", "back", "node"], ["node", "back", "left", "face"], ["left", "node", "face", "back"]][w.get("korder", w.get("ny", 0) + 2 * w.get("nx", 0)) % 3]
        conv = ArakawaC(ds, coordinate_names={k: names[k] for k in order})
        conv.bind()
        return conv
    return ds.ems


def counts_world(conv, ny=0, nx=0, nface=0, nnode=0, nedge=-1) -> dict:
    return {"conv": conv, "ny": ny, "nx": nx, "nface": nface, "nnode": nnode, "nedge": nedge}
