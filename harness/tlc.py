"""Running TLC: model checking runs, case-emission runs and trace-validation runs."""
from __future__ import annotations

import json
import os
import pathlib
import re
import shutil
import subprocess
import time

VERIF = pathlib.Path(__file__).resolve().parent.parent
SPEC = VERIF / "spec"
WORK = VERIF / ".work"


class MachineryError(Exception):
    """TLC could not run / parse / finish: never a property violation."""


def _run(args, env=None, timeout=3600, cwd=None):
    e = dict(os.environ)
    e.pop("JAVA_TOOL_OPTIONS", None)
    if env:
        e.update({k: str(v) for k, v in env.items()})
    t0 = time.time()
    try:
        p = subprocess.run(args, env=e, cwd=cwd or str(SPEC), stdout=subprocess.PIPE,
                           stderr=subprocess.STDOUT, text=True, timeout=timeout)
    except subprocess.TimeoutExpired as ex:
        raise MachineryError(f"TLC timed out after {timeout}s: {' '.join(map(str, args))}") from ex
    return p.returncode, p.stdout, time.time() - t0


def _metadir(tag: str) -> pathlib.Path:
    d = WORK / "tlc" / f"{tag}-{os.getpid()}"
    if d.exists():
        shutil.rmtree(d, ignore_errors=True)
    d.mkdir(parents=True, exist_ok=True)
    return d


_STATS = re.compile(r"(\d+) states generated, (\d+) distinct states found, (\d+) states left on queue")


def model_check(module: str, cfg: str, *, workers: int = 8, timeout: int = 3600, tag: str | None = None,
                env: dict | None = None, extra: list[str] | None = None) -> dict:
    """Exhaustive TLC run of spec/<module>.tla with spec/<cfg>.  Returns measured counts.
    Raises MachineryError if TLC fails for any reason other than the model being fine."""
    meta = _metadir(tag or module)
    args = ["tlc", "-workers", str(workers), "-metadir", str(meta), "-noGenerateSpecTE",
            "-config", cfg, *(extra or []), f"{module}.tla"]
    rc, out, wall = _run(args, env=env, timeout=timeout)
    shutil.rmtree(meta, ignore_errors=True)
    m = None
    for m in _STATS.finditer(out):
        pass
    ok = rc == 0 and "Model checking completed. No error has been found." in out
    res = {
        "module": module, "cfg": cfg, "ok": ok, "rc": rc, "wall_s": round(wall, 2),
        "generated": int(m.group(1)) if m else 0,
        "distinct": int(m.group(2)) if m else 0,
        "queue": int(m.group(3)) if m else 0,
        "cmd": " ".join(args),
    }
    dm = re.search(r"The depth of the complete state graph search is (\d+)", out)
    if dm:
        res["depth"] = int(dm.group(1))
    if not ok:
        res["output_tail"] = out[-4000:]
        inv = re.search(r"Invariant (\S+) is violated", out)
        if inv:
            res["violated"] = inv.group(1)
        ap = re.search(r"Action property (\S+) is violated", out)
        if ap:
            res["violated"] = ap.group(1)
    return res


def eval_assume(module: str, cfg: str, env: dict, *, timeout: int = 1800, tag: str | None = None) -> str:
    """Run a module that only has ASSUMEs / emits files (case emission)."""
    meta = _metadir(tag or module)
    args = ["tlc", "-workers", "1", "-metadir", str(meta), "-noGenerateSpecTE", "-config", cfg, f"{module}.tla"]
    rc, out, wall = _run(args, env=env, timeout=timeout)
    shutil.rmtree(meta, ignore_errors=True)
    if rc != 0:
        raise MachineryError(f"case emission {module} failed rc={rc}\n{out[-3000:]}")
    return out


def validate_trace(module: str, cfg: str, trace_file: pathlib.Path, *, timeout: int = 3600,
                   tag: str | None = None, env: dict | None = None) -> dict:
    """Trace validation: TLC walks the NDJSON log with spec/<module>.tla and writes its verdict as JSON.
    Returns the verdict dict {records, fails:[[tid, l, clause]...], seen:[...], missing:[...]}."""
    meta = _metadir(tag or module)
    verdict_file = meta / "verdict.json"
    e = {"TRACE_FILE": str(trace_file), "VERDICT_FILE": str(verdict_file)}
    if env:
        e.update(env)
    args = ["tlc", "-workers", "1", "-metadir", str(meta), "-noGenerateSpecTE", "-config", cfg, f"{module}.tla"]
    rc, out, wall = _run(args, env=e, timeout=timeout)
    m = None
    for m in _STATS.finditer(out):
        pass
    if rc != 0 or not verdict_file.exists():
        shutil.rmtree(meta, ignore_errors=True)
        errs = "\n".join([ln for ln in out.splitlines() if ln.startswith("Error:")][:5])
        raise MachineryError(f"trace validation {module} did not complete (rc={rc})\n{errs}\n{out[-6000:]}")
    verdict = json.loads(verdict_file.read_text())
    shutil.rmtree(meta, ignore_errors=True)
    verdict["wall_s"] = round(wall, 2)
    verdict["tlc_states"] = int(m.group(2)) if m else 0
    verdict["cmd"] = " ".join(args)
    # normalise: TLC serialises tuples as lists
    verdict["fails"] = [list(f) for f in verdict.get("fails", [])]
    return verdict


def apalache_check(module: str, *, init: str, inv: str, length: int, cinit: str | None = None, timeout: int = 1800) -> dict:
    """One bounded Apalache run on spec/apalache/<module>.tla (used for inductive invariants: `init` = IndInit, length 1)."""
    out = WORK / "apalache" / f"{module}-{init}-{inv}-{os.getpid()}"
    if out.exists():
        shutil.rmtree(out, ignore_errors=True)
    out.mkdir(parents=True, exist_ok=True)
    args = ["apalache-mc", "check", f"--init={init}", f"--inv={inv}", f"--length={length}", f"--out-dir={out}"]
    if cinit:
        args.append(f"--cinit={cinit}")
    args.append(f"{module}.tla")
    rc, text, wall = _run(args, timeout=timeout, cwd=str(SPEC / "apalache"))
    shutil.rmtree(out, ignore_errors=True)
    ok = rc == 0 and "EXITCODE: OK" in text
    return {"module": "apalache/" + module, "init": init, "inv": inv, "length": length, "ok": ok, "wall_s": round(wall, 2),
            "output_tail": "" if ok else text[-1500:]}
