"""Shared driver pieces for the cell-order family (C02, C04, C05 and users of Trace_Cells)."""
from __future__ import annotations

import random

import numpy
import shapely
import xarray

from . import geoworlds as GW, worlds as W
from .project import BADINT, as_int, kind_name, native_index, outcome, polygon_vertices
from .worlds import INEXACT, MISSING, NANQ, SCALE, f2q


# ------------------------------------------------------------------ variables
def add_data_vars(w: dict, rng: random.Random, *, rich: bool = True, late: bool = False, packed: bool = False,
                  ksize: int | None = None, odd_floats: bool = False) -> None:
    """Attach extra dimensions and tagged data variables to a geometric world."""
    tname = "time" if w["conv"] == "shoc_simple" else "t"
    extras = [{"name": "t", "size": 2, "coord": {"name": tname, "kind": "time", "values": [0, 6]}},
              {"name": "k", "size": ksize or rng.choice([1, 2, 3])}]        # (a dimension of length 1 must survive every selection)
    if rng.random() < 0.3:
        extras.append({"name": "index", "size": 2})
    w["extras"] = extras
    kinds = W.kinds_of(w)
    two = len(W.kind_shape(w, "face")) == 2
    specs = []
    base = 1000

    def grid_tokens(kind):
        return ["@0", "@1"] if len(W.kind_shape(w, kind)) == 2 else ["@0"]

    def add(name, kind, dims, dtype="f8", missing_frac=0.0):
        nonlocal base
        v = {"name": name, "kind": kind, "dims": dims, "dtype": dtype, "base": base}
        _, shape = W.var_dims_shape(w, v)
        n = int(numpy.prod(shape)) if shape else 1
        if missing_frac and numpy.dtype(dtype).kind == "f":
            v["missing"] = sorted(rng.sample(range(n), max(1, int(n * missing_frac))))
        specs.append(v)
        base += n + 7

    g = grid_tokens("face")
    d = ["t", "k"] + g
    rng.shuffle(d)
    add("temp", "face", d, "f8", 0.15)
    add("flag", "face", list(reversed(g)), "i4")
    add("eta", "face", (["t"] + g) if rng.random() < .5 else (g[:1] + ["t"] + g[1:]), "f4")
    if any(e["name"] == "index" for e in extras):
        add("withindex", "face", ["index"] + g, "f8")
    gg = list(g) if rng.random() < .5 else list(reversed(g))
    add("plotv", "face", gg, "f8", 0.2)
    add("pu", "face", list(g), "f8")
    add("fort", "face", ["k"] + list(g), "f8")       # held in Fortran-ordered memory (as after a transpose, or read by scipy.io)
    specs[-1]["forder"] = True
    if packed:
        # a variable stored packed on disk (int16, scale / offset) whose fill value is ZERO - a legitimate choice
        add("packed", "face", ["t"] + list(g), "f8", 0.2)
        specs[-1]["encoding"] = {"dtype": "int16", "scale_factor": 1.0, "add_offset": float(specs[-1]["base"] - 5), "_FillValue": 0}
    add("pv", "face", list(g), "f4", 0.1)
    if odd_floats:
        # floating point data that is not native float64 (single precision, big-endian doubles as in netCDF-3 files), each
        # with a missing value in a cell that HAS geometry (an ordinary dry-cell marker)
        from . import geoworlds as _GW
        valid = [n for n, ring in enumerate(_GW.abstract_polys(w)) if ring]
        for name, dt in (("single", "f4"), ("bigend", ">f8")):
            add(name, "face", list(g), dt)
            specs[-1]["missing"] = valid[1:2] or valid[:1]
    if late:       # a variable that is added to the dataset later, in place (Mutate events)
        add("late_face", "face", ["t"] + list(g), "f8")
        specs[-1]["late"] = True
    if rich:
        for kind in kinds:
            if kind == "face":
                continue
            gk = grid_tokens(kind)
            dd = ["t"] + gk
            rng.shuffle(dd)
            add("on_" + kind, kind, dd, "f8", 0.1)
        add("nogrid", None, ["t"], "f8")
        if two:
            add("ypart", "face", ["t", "@0"], "f8")      # only one of the two grid dimensions
    w["vars"] = specs


def tlc_vars(w: dict) -> list[dict]:
    out = []
    for v in w.get("vars", []):
        dims, shape = W.var_dims_shape(w, v)
        kind = v.get("kind") or ""
        gridpos = []
        if kind:
            for gd in W.kind_dims(w, kind):
                gridpos.append(dims.index(gd) + 1 if gd in dims else 0)
        out.append({"name": v["name"], "kind": kind, "dims": dims, "shape": shape, "gridpos": gridpos,
                    "base": v.get("base", 0), "missing": list(v.get("missing", [])), "geometry": False,
                    "dtype": "m8" if v.get("dtype", "f8").startswith("m8") else v.get("dtype", "f8"), "late": bool(v.get("late", False))})
    return out


def tlc_world(w: dict, ds: xarray.Dataset | None = None) -> dict:
    out = GW.tlc_world(w)
    out["vars"] = tlc_vars(w)
    if ds is not None:
        out["alldims"] = [str(d) for d in ds.dims]
        # the names of the variables that make up the geometry of THIS dataset (coordinates, bounds, mesh tables ...)
        from .props.c16 import geometry_names
        try:
            out["geomnames"] = [str(n) for n in geometry_names(w, ds)]
        except Exception:
            out["geomnames"] = []
    return out


# ------------------------------------------------------------------ projection
def proj_values(values) -> list[int]:
    arr = numpy.asarray(values)
    flat = arr.reshape(-1)
    out = []
    if arr.dtype.kind == "f":
        for v in flat.tolist():
            if v != v:
                out.append(MISSING)
            elif v == int(v):
                out.append(int(v))
            else:
                out.append(BADINT)
    elif arr.dtype.kind in "iu":
        out = [int(v) for v in flat.tolist()]
    elif arr.dtype.kind == "b":
        out = [int(v) for v in flat.tolist()]
    elif arr.dtype.kind == "m":
        # durations: whole hours (the tags are written as hours); NaT is the missing value
        nat = numpy.isnat(flat)
        ns = flat.astype("timedelta64[ns]").astype("int64")
        out = [MISSING if bad else (int(v // 3600_000_000_000) if v % 3600_000_000_000 == 0 else BADINT) for v, bad in zip(ns.tolist(), nat.tolist())]
    else:
        out = [BADINT for _ in flat]
    return out


def proj_array(name, da: xarray.DataArray) -> dict:
    return {"name": str(name), "dims": [str(d) for d in da.dims], "shape": [int(s) for s in da.shape],
            "data": proj_values(da.values), "dtype": "m8" if da.dtype.kind == "m" else da.dtype.str.lstrip("<>=|")}      # (durations: whatever the unit)


def proj_dataset(ds: xarray.Dataset) -> list[dict]:
    return [proj_array(n, ds[n]) for n in ds.data_vars if ds[n].dtype.kind in "fiub"]


def pt(p) -> shapely.Point:
    if p[0] == NANQ or p[1] == NANQ:
        return shapely.Point(float("nan"), float("nan"))      # a row without a position
    return shapely.Point(p[0] * SCALE, p[1] * SCALE)


# ------------------------------------------------------------------ events
def run_event(w, ds, conv, e: dict) -> dict:
    e = dict(e)
    a = e["a"]
    kind_enum = type(next(iter(conv.grid_kinds)))
    if a == "Mutate":
        # the dataset object is modified IN PLACE (same object, same bound convention): every data variable is replaced
        # by itself + off, and the variables flagged `late` are added
        def mutate():
            for v in w["vars"]:
                if v.get("late"):
                    if v["name"] not in ds.variables:
                        vv = dict(v, base=v["base"] + e["total"])       # so that it, too, reads as tag + total offset
                        ds[v["name"]] = W.var_array(w, vv)
                        continue
                old = ds[v["name"]]
                ds[v["name"]] = (old + numpy.asarray(e["off"], dtype=old.dtype)).astype(old.dtype).assign_attrs(old.attrs)
            return 1
        e["obs"] = outcome(mutate)
    elif a == "Polygons":
        e["obs"] = outcome(lambda: {"polys": [polygon_vertices(p) for p in conv.polygons],
                                    "mask": [bool(m) for m in conv.mask]})
    elif a == "Centres":
        def centres():
            c = conv.face_centres
            return {"c": [[f2q(x), f2q(y)] for x, y in c],
                    "c4": [[NANQ if x != x else int(round(x / SCALE * 4)), NANQ if y != y else int(round(y / SCALE * 4))]
                           for x, y in c]}
        e["obs"] = outcome(centres)
    elif a == "Ravel":
        e["obs"] = outcome(lambda: proj_array(e["var"], conv.ravel(ds[e["var"]])))
    elif a == "SelectIndex":
        def sel():
            if e.get("api") == "unravel_index":
                # the older (deprecated, still public) name, grid kind passed positionally
                import warnings
                with warnings.catch_warnings():
                    warnings.simplefilter("ignore")
                    idx = conv.unravel_index(e["n"], kind_enum(e["kind"]))
            elif e.get("api") == "via_ravel_narrow":
                # the native index held as narrow numpy integers (a station table stored as bytes) is turned into a linear
                # position and back before it is used
                idx = conv.wind_index(e["n"], grid_kind=kind_enum(e["kind"]))
                narrow = tuple(numpy.int8(v) if isinstance(v, (int, numpy.integer)) and not isinstance(v, bool) and -128 <= int(v) < 128 else v for v in idx)
                idx = conv.wind_index(conv.ravel_index(narrow), grid_kind=kind_enum(e["kind"]))
            else:
                idx = conv.wind_index(e["n"], grid_kind=kind_enum(e["kind"]))
            r_ = conv.select_index(idx)
            return {"vars": proj_dataset(r_), "allnames": sorted(str(n) for n in r_.variables)}
        e["obs"] = outcome(sel)
    elif a == "Query":
        e["obs"] = outcome(lambda: sorted(int(v) for v in conv.strtree.query(pt(e["p"]), predicate="intersects")))
    elif a == "SpatialIndex":
        def si():
            import warnings
            with warnings.catch_warnings():
                warnings.simplefilter("ignore")
                index = conv.spatial_index
            out = []
            for poly, item in index.query(pt(e["p"])):
                if item.polygon.intersects(pt(e["p"])):      # the tree returns candidates by bounding box
                    out.append({"linear": as_int(item.linear_index), "native": native_index(w["conv"], item.index),
                                "poly": polygon_vertices(item.polygon)})
            return sorted(out, key=lambda r: r["linear"])
        e["obs"] = outcome(si)
    elif a == "Lookup":
        def lookup():
            r = conv.get_index_for_point(pt(e["p"]))
            if r is None:
                return {"hit": False}
            return {"hit": True, "linear": as_int(r.linear_index), "native": native_index(w["conv"], r.index),
                    "poly": polygon_vertices(r.polygon)}
        e["obs"] = outcome(lookup)
    elif a == "SelectPoint":
        e["obs"] = outcome(lambda: {"vars": proj_dataset(conv.select_point(pt(e["p"])))})
    elif a == "SelectIndexes":
        def many():
            idxs = [conv.wind_index(n, grid_kind=kind_enum(e["kind"])) for n in e["ns"]]
            kw = {} if e.get("default_dim") else {"index_dimension": e["dim"]}
            r_ = conv.select_indexes(idxs, **kw)
            return {"vars": proj_dataset(r_), "allnames": sorted(str(n) for n in r_.variables)}
        e["obs"] = outcome(many)
    elif a in ("SelectPoints", "ExtractDF"):
        from emsarray.operations import point_extraction
        pts = [pt(p) for p in e["ps"]]
        kw = {} if e.get("default_dim") else {"point_dimension": e["dim"]}

        def run():
            if a == "SelectPoints":
                r = conv.select_points(pts, missing_points=e["policy"], **kw)
                cols = []
            else:
                import pandas
                # (the table's own columns carry names no dataset variable has)
                df = pandas.DataFrame({"stn_lon": [p.x for p in pts], "stn_lat": [p.y for p in pts],
                                       "pid": [5000 + k for k in range(len(pts))]})
                r = point_extraction.extract_dataframe(ds, df, ("stn_lon", "stn_lat"), missing_points=e["policy"], **kw)
                cols = sorted(str(c) for c in df.columns if c in r.variables)
            dim = e["dim"]
            if e.get("default_dim"):
                new = [d for d in r.dims if d not in ds.dims]
                dim = new[0] if len(new) == 1 else dim
            labels = [as_int(v) for v in r[dim].values.tolist()] if dim in r.coords else [BADINT]
            out = {"vars": [v for v in proj_dataset(r) if v["name"] not in ("pid",)], "labels": labels,
                   "allnames": sorted(str(n) for n in r.variables)}
            if a == "ExtractDF":
                out["cols"] = cols
            return out
        try:
            e["obs"] = {"ok": run()}
        except point_extraction.NonIntersectingPoints as ex:
            e["obs"] = {"err": "NonIntersectingPoints", "indexes": [as_int(v) for v in list(ex.indexes)]}
        except Exception as ex:
            e["obs"] = {"err": type(ex).__name__, "indexes": []}
        if a == "ExtractDF":
            e["expectcols"] = ["pid", "stn_lat", "stn_lon"]
    elif a == "Export":
        e["obs"] = outcome(lambda: export_features(w, ds, e["fmt"], e["path"], e.get("via", "library")))
    elif a == "PolyCollection":
        e["obs"] = outcome(lambda: poly_collection(w, ds, conv, e))
    elif a == "Quiver":
        e["obs"] = outcome(lambda: quiver(w, ds, conv, e))
    else:
        raise ValueError(a)
    return e


def ring_q(coords) -> list:
    pts = [[f2q(x), f2q(y)] for x, y in coords]
    if len(pts) > 1 and pts[0] == pts[-1]:
        pts = pts[:-1]
    return pts


def _cli_export(ds, fmt: str, path: str):
    """the same export through the command line entry point: the dataset is written to a netCDF file first (with whatever
    on-disk encoding its variables carry) and `emsarray export-geometry` reads that file"""
    import os

    import emsarray.cli
    inp = os.path.join(os.path.dirname(path), "cli-input.nc")
    ds.to_netcdf(inp)
    try:
        emsarray.cli.main(["-q", "export-geometry", inp, path, "-f", fmt])
    except SystemExit as ex:
        if ex.code not in (0, None):
            raise RuntimeError(f"export-geometry exited with {ex.code}")
    finally:
        os.unlink(inp)


def export_features(w, ds, fmt: str, path: str, via: str = "library") -> dict:
    """Write with emsarray, read back with an independent reader; features in file order."""
    import json
    import os
    from emsarray.operations import geometry
    os.makedirs(os.path.dirname(path), exist_ok=True)
    if via == "cli":
        class geometry:      # noqa: F811  (same four writers, reached through the command line)
            write_geojson = staticmethod(lambda d, p_: _cli_export(d, "geojson", p_))
            write_shapefile = staticmethod(lambda d, p_: _cli_export(d, "shapefile", p_))
            write_wkt = staticmethod(lambda d, p_: _cli_export(d, "wkt", p_))
            write_wkb = staticmethod(lambda d, p_: _cli_export(d, "wkb", p_))
    feats = []
    if fmt == "geojson":
        geometry.write_geojson(ds, path)
        data = json.load(open(path))
        for f in data["features"]:
            props = f.get("properties") or {}
            feats.append({"coords": ring_q(f["geometry"]["coordinates"][0]),
                          "linear": as_int(props.get("linear_index")),
                          "native": native_index(w["conv"], props.get("index")) if props.get("index") is not None else [BADINT]})
    elif fmt == "shapefile":
        import shapefile
        geometry.write_shapefile(ds, path)
        with shapefile.Reader(path) as r:
            for sr in r.iterShapeRecords():
                rec = list(sr.record)          # by field position: name, linear_index, index
                try:
                    native = native_index(w["conv"], json.loads(rec[2])) if rec[2] not in (None, "") else [BADINT]
                except Exception:
                    native = [BADINT]
                pts = sr.shape.points
                parts = list(sr.shape.parts) + [len(pts)]
                feats.append({"coords": ring_q(pts[parts[0]:parts[1]]), "linear": as_int(rec[1]), "native": native})
    else:
        if fmt == "wkt":
            geometry.write_wkt(ds, path)
            geom = shapely.from_wkt(open(path).read())
        else:
            geometry.write_wkb(ds, path)
            geom = shapely.from_wkb(open(path, "rb").read())
        for g in geom.geoms:
            feats.append({"coords": ring_q(g.exterior.coords), "linear": -2, "native": [-2]})
    for f in os.listdir(os.path.dirname(path)):
        os.unlink(os.path.join(os.path.dirname(path), f))
    return {"features": feats}


def poly_collection(w, ds, conv, e) -> dict:
    import matplotlib
    matplotlib.use("Agg")
    kwargs = {}
    given_transform = None
    if e.get("clim"):
        kwargs["clim"] = tuple(float(v) for v in e["clim"])
    if e.get("array"):
        kwargs["array"] = numpy.array(e["array"], dtype=float)
    if e.get("transform"):
        import cartopy.crs
        given_transform = cartopy.crs.PlateCarree(central_longitude=10)
        kwargs["transform"] = given_transform
    data = None
    if e.get("var"):
        data = e["var"] if e.get("mode", "name") == "name" else ds[e["var"]].copy()
        if e.get("mode") == "anon":
            data = xarray.DataArray(ds[e["var"]].values, dims=ds[e["var"]].dims)
        if e.get("mode") == "relabelled":
            # the same grid from another product: same dimensions in the same order, OTHER labels on them (0..360 longitudes,
            # cell numbers, reversed labels): values are paired with cells by position
            src = ds[e["var"]]
            data = xarray.DataArray(numpy.asarray(src.values), dims=src.dims,
                                    coords={d: (numpy.arange(src.sizes[d])[::-1] * 7.0 + 360.0) for d in src.dims}, name=src.name)
    make = conv.make_patch_collection if e.get("api") == "make_patch_collection" else conv.make_poly_collection
    coll = make(data, **kwargs) if data is not None else make(**kwargs)
    paths = [ring_q(p.vertices) for p in coll.get_paths()]
    arr = coll.get_array()
    clim = coll.get_clim()
    tr = coll._transform       # the raw object handed to the artist (resolving it needs a GeoAxes)
    which = "given" if (given_transform is not None and tr is given_transform) else (
        "default" if tr is conv.data_crs else "other")
    def tagv(v):
        if v is None:
            return BADINT
        v = float(v)
        return MISSING if v != v else (int(v) if v == int(v) else BADINT)
    return {"paths": paths, "hasarray": arr is not None,
            "array": [] if arr is None else [tagv(v) for v in numpy.ma.filled(numpy.ma.asarray(arr, dtype=float), numpy.nan).tolist()],
            "clim": [tagv(clim[0]), tagv(clim[1])], "transform": which}


def quiver(w, ds, conv, e) -> dict:
    import matplotlib
    matplotlib.use("Agg")
    from matplotlib.figure import Figure
    fig = Figure()
    axes = fig.add_subplot(projection=conv.data_crs)
    if e.get("u"):
        u = e["u"] if e.get("mode", "name") == "name" else ds[e["u"]]
        v = e["v"] if e.get("mode", "name") == "name" else ds[e["v"]]
        qv = conv.make_quiver(axes, u, v)
    else:
        qv = conv.make_quiver(axes)
    def tagv(x):
        x = float(x)
        return MISSING if x != x else (int(x) if x == int(x) else BADINT)
    # matplotlib stores invalid components as a joint mask (Umask) and fills the arrays with 1
    U = numpy.asarray(qv.U, dtype=float).reshape(-1)
    V = numpy.asarray(qv.V, dtype=float).reshape(-1)
    mask = numpy.broadcast_to(numpy.ma.getmaskarray(numpy.ma.masked_array(U, mask=qv.Umask)), U.shape).reshape(-1)
    return {"xy": [[f2q(x), f2q(y)] for x, y in numpy.asarray(qv.XY, dtype=float)],
            "u": [tagv(x) for x in U.tolist()], "v": [tagv(x) for x in V.tolist()],
            "mask": [bool(m) for m in mask.tolist()]}


def snapshot(ds: xarray.Dataset, skip=()) -> list:
    """what the INPUT dataset holds (every variable except `skip`): name, dims, dtype, a digest of the values and of the
    attributes.  Taken before and after a case; the trace specification demands that they agree (nothing the library is
    asked may write into the caller's arrays or attributes)."""
    import hashlib
    out = []
    for n in sorted(str(k) for k in ds.variables):
        if n in skip:
            continue
        v = ds[n]
        try:
            arr = numpy.ascontiguousarray(numpy.asarray(v.values))
            dig = hashlib.sha1(arr.tobytes()).hexdigest()[:16]
        except Exception as ex:      # not readable any more: that, too, is a difference
            dig = "unreadable-" + type(ex).__name__
        attrs = hashlib.sha1(repr(sorted((str(k), repr(x)) for k, x in v.attrs.items())).encode()).hexdigest()[:12]
        out.append([n, [str(d) for d in v.dims], str(v.dtype), dig, attrs])
    return out


def execute_cells(case: dict) -> dict:
    from . import viafile
    w = case["world"]
    held = viafile.hold(w, W.build(w))        # in memory / reopened lazily from a file / dask-backed ... (w["via"])
    try:
        ds = held.ds
        mutated = {v["name"] for v in w.get("vars", [])} if any(e["a"] == "Mutate" for e in case["events"]) else set()
        before = snapshot(ds, mutated)
        conv = W.bind(w, ds)
        for attr in w.get("touch_first", []):
            # the user looked at the extent of the dataset before asking anything else (these are not questions of the trace)
            try:
                getattr(conv, attr)
            except Exception:
                pass
        rec = {"tid": case["tid"], "src": case["src"], "w": tlc_world(w, ds), "events": []}
        rec["w"]["via"] = w.get("via", "memory") + ("+bounds-as-coords" if w.get("bounds_as_coords") else "")
        second = None
        nagain = 0
        for e in case["events"]:
            if e.get("again"):
                nagain += 1
            if e.get("again") and nagain % 2 == 0:
                # every second repeated question goes to a SECOND dataset object sharing the first one's arrays (a shallow
                # copy, as isel / assign / select_variables produce), with a convention object of its own
                if second is None:
                    ds2 = ds.copy(deep=False)
                    second = (ds2, W.bind(w, ds2))
                r = run_event(w, second[0], second[1], e)
                r["on"] = "shallow-copy"
                rec["events"].append(r)
            else:
                rec["events"].append(run_event(w, ds, conv, e))
        rec["input"] = {"before": before, "after": snapshot(ds, mutated)}
        return rec
    finally:
        held.close()




# known finding F21: Mesh2DTopology.two_dimension guesses "the first dimension of size 2" when the dataset does not call it
# 'Two': with two time records declared first the supplied edge tables are judged invalid, are not counted as geometry and
# stay in selections made on the edge grid
def f21(rec: dict, failing: list) -> bool:
    w = rec["w"]
    if w.get("conv") != "ugrid" or "Two" in (w.get("alldims") or []):
        return False
    edge_tables = {"Mesh2_edge_nodes", "Mesh2_edge_faces", "Mesh2_face_edges"}
    for l, c in failing:
        if c != "GeometryAbsent":
            return False
        e = rec["events"][l - 1]
        if e.get("kind") != "edge" or "ok" not in e.get("obs", {}):
            return False
        left = set(e["obs"]["ok"].get("allnames", [])) & set(w.get("geomnames", []))
        if not left or not left <= edge_tables:
            return False
    return True
