"""Generators of abstract worlds *with geometry* shared by the geometry-related properties
(C02, C04, C05, C06, C07, C14, C15, C19).  Everything is deterministic in (tier, seed)."""
from __future__ import annotations

import random

from . import worlds as W


def tlc_world(w: dict) -> dict:
    """The part of a world the specification reads (no concretisation choices)."""
    out = {k: w[k] for k in ("conv", "ny", "nx", "nface", "nnode", "nedge")}
    if w["conv"] == "ugrid":
        m = w["mesh"]
        mm = {"nodes": m["nodes"], "faces": m["faces"]}
        if m.get("face_centres"):
            mm["face_centres"] = m["face_centres"]
        out["mesh"] = mm
        out["geom"] = {"none": 0}
    else:
        g = w["geom"]
        out["geom"] = {k: v for k, v in g.items() if k in ("xc", "yc", "xb", "yb", "xg", "yg")}
        out["mesh"] = {"none": 0}
    return out


def structured_world(conv, ny, nx, **kw) -> dict:
    coords_as = kw.pop("coords_as", "coords")
    names = kw.pop("names", None)
    bowtie = kw.pop("bowtie", None)
    w = W.counts_world(conv, ny=ny, nx=nx)
    w["geom"] = W.structured_geometry(conv, ny, nx, **kw)
    w["coords_as"] = coords_as
    if names:
        w["names"] = names
    if bowtie is not None and "xb" in w["geom"] and conv in ("cf2d", "shoc_simple"):
        j, i = bowtie
        for key in ("xb", "yb"):
            c = w["geom"][key][j][i]
            c[1], c[2] = c[2], c[1]          # swap two corners: self-intersecting ring
        w["geom"]["bowtie"] = [j, i]
    return w


def shifted(w: dict, dx: int, dy: int) -> dict:
    """the same world moved by (dx, dy) quanta - e.g. to high latitudes, where a degree of longitude is much shorter
    than a degree of latitude"""
    from .worlds import NANQ

    def mv(a, d):
        if isinstance(a, list):
            return [mv(x, d) for x in a]
        return a if a == NANQ else a + d
    w = dict(w)
    if w["conv"] == "ugrid":
        m = dict(w["mesh"])
        m["nodes"] = [[p[0] + dx, p[1] + dy] for p in m["nodes"]]
        if m.get("face_centres"):
            m["face_centres"] = [[p[0] + dx, p[1] + dy] for p in m["face_centres"]]
        w["mesh"] = m
    else:
        g = dict(w["geom"])
        for k, v in g.items():
            if isinstance(v, list) and k[:1] in ("x", "y") and k not in ("holes",):
                g[k] = mv(v, dx if k[0] == "x" else dy)
        w["geom"] = g
    return w


def scaled(w: dict, f: int) -> dict:
    """the same world with every coordinate multiplied by f (bigger cells)"""
    from .worlds import NANQ

    def mul(a):
        if isinstance(a, list):
            return [mul(x) for x in a]
        return a if a == NANQ else a * f
    w = dict(w)
    if w["conv"] == "ugrid":
        m = dict(w["mesh"])
        m["nodes"] = [[p[0] * f, p[1] * f] for p in m["nodes"]]
        if m.get("face_centres"):
            m["face_centres"] = [[p[0] * f, p[1] * f] for p in m["face_centres"]]
        w["mesh"] = m
    else:
        g = dict(w["geom"])
        for k, v in g.items():
            if isinstance(v, list) and k[:1] in ("x", "y"):
                g[k] = mul(v)
        w["geom"] = g
    return w


def mesh_world(mesh: dict, *, enc: dict | None = None, edges: bool = False, centres: bool = False) -> dict:
    m = dict(mesh)
    e = W.mesh_edges(m["faces"])
    m["edges"] = [list(x) for x in e]
    enc = dict(enc or {})
    if edges:
        # a transposed edge table must declare edge_dimension (UGRID), otherwise it may be implied
        enc.setdefault("edge_dim", "declared" if enc.get("transposed") else "implied")
        enc.setdefault("supplied", ["en"])
    if centres:
        # face centre = a lattice point inside the face supplied as coordinate variables: use the
        # mean of the first triangle fan if integral, else the first vertex (values only need to be tags)
        m["face_centres"] = []
        for f in m["faces"]:
            pts = [m["nodes"][k] for k in f]
            m["face_centres"].append([pts[0][0] + 1, pts[0][1] + 2])   # distinctive, not a centroid
    w = W.counts_world("ugrid", nface=len(m["faces"]), nnode=len(m["nodes"]),
                       nedge=len(e) if enc.get("edge_dim", "absent") != "absent" else -1)
    w["mesh"] = m
    w["enc"] = enc
    return w


FAMILY = [
    [["Q"]], [["A"]], [["B", "Q"]], [["Q", "A"], ["N", "Q"]], [["A", "B"], ["B", "Q"]],
    [["H", "h"], ["Q", "N"]], [["Q", "N", "Q"]], [["A", "Q", "B"], ["Q", "N", "A"]],
]


def geo_worlds(tier: str, seed: int, *, convs=W.ALL_CONVS, big: bool = True) -> list[dict]:
    rng = random.Random(seed * 7919 + 13)
    out: list[dict] = []
    quick = tier == "quick"
    if "cf1d" in convs:
        combos = [
            dict(ny=2, nx=3, bounds=True), dict(ny=2, nx=3, bounds=False),
            dict(ny=3, nx=2, bounds=False, descending=(True, False), nonuniform=True),
            dict(ny=2, nx=4, bounds=True, descending=(False, True), nonuniform=True, coords_as="plain"),
            dict(ny=1, nx=2, bounds=True), dict(ny=3, nx=3, bounds=False, nonuniform=True, coords_as="plain"),
            dict(ny=2, nx=2, bounds=False, descending=(True, True)),
        ]
        if not quick:
            combos += [dict(ny=rng.randint(2, 5), nx=rng.randint(2, 6), bounds=rng.random() < .5,
                            descending=(rng.random() < .3, rng.random() < .3), nonuniform=rng.random() < .6,
                            coords_as=rng.choice(["coords", "plain"])) for _ in range(10)]
        for c in combos:
            c = dict(c); ny = c.pop("ny"); nx = c.pop("nx")
            out.append(structured_world("cf1d", ny, nx, **c))
            if len(out) % 2 == 0:
                out[-1]["first_var"] = "flag"      # dataset dimension order x before y (see worlds.build)
    if "cf1d" in convs:
        # whole-degree axes stored as INTEGERS, three degrees apart (so the cell edges fall on half degrees), no stored bounds
        wi = scaled(structured_world("cf1d", 3, 4, bounds=False), 8)
        wi = shifted(wi, (-wi["geom"]["xc"][0]) % 64, (-wi["geom"]["yc"][0]) % 64)       # centres on whole degrees
        wi["coord_dtype"] = "int32"
        out.append(wi)
    for conv in ("cf2d", "shoc_simple"):
        if conv not in convs:
            continue
        combos = [
            dict(ny=2, nx=3, shape="skew", bounds=True), dict(ny=3, nx=3, shape="rect", bounds=False),
            dict(ny=3, nx=2, shape="skew2", bounds=True, holes=[(1, 0)]),
            dict(ny=3, nx=4, shape="skew", bounds=False, holes=[(0, 0)]),
            dict(ny=3, nx=3, shape="skew", bounds=True, holes=[(1, 1), (2, 2)], coords_as="plain"),
            dict(ny=2, nx=2, shape="rect", bounds=True, bowtie=(0, 1)),
            dict(ny=2, nx=3, shape="rect", bounds=True, bowtie=(0, 0)),      # the only self-intersecting cell is the very first one
            dict(ny=3, nx=4, shape="rect", bounds=True, holes=[(0, 1), (1, 0)], bowtie=(2, 1)),   # cells without geometry BEFORE a self-intersecting one
            dict(ny=1, nx=3, shape="skew", bounds=True), dict(ny=4, nx=3, shape="skew2", bounds=False, holes=[(0, 0), (0, 1)]),
            dict(ny=3, nx=3, shape="rect", bounds=False, holes=[(1, 1)]),      # isolated interior cell without a centre
            dict(ny=4, nx=4, shape="skew", bounds=False, holes=[(1, 2)], coords_as="plain"),
            dict(ny=3, nx=3, shape="rect", bounds=False, holes=[(1, 0), (1, 2)]),      # a cell flanked by cells without coordinates
        ]
        if not quick:
            for _ in range(8):
                ny, nx = rng.randint(2, 5), rng.randint(2, 6)
                holes = [(rng.randrange(ny), rng.randrange(nx)) for _ in range(rng.randint(0, 3))]
                if not rng.random() < .5:
                    # without bounds only holes on the rim are in the specification's validity domain? no: all are
                    pass
                combos.append(dict(ny=ny, nx=nx, shape=rng.choice(["rect", "skew", "skew2"]), bounds=rng.random() < .5,
                                   holes=sorted(set(holes)), coords_as=rng.choice(["coords", "plain"])))
        for c in combos:
            c = dict(c); ny = c.pop("ny"); nx = c.pop("nx")
            out.append(structured_world(conv, ny, nx, **c))
            if len(out) % 2 == 0:
                out[-1]["first_var"] = "flag"
    for conv in ("shoc_standard", "arakawa"):
        if conv not in convs:
            continue
        combos = [
            dict(ny=2, nx=3, shape="skew"), dict(ny=3, nx=2, shape="rect", holes=[(0, 0)]),
            dict(ny=3, nx=3, shape="skew2", holes=[(1, 1)]), dict(ny=1, nx=2, shape="skew"),
            dict(ny=3, nx=4, shape="skew", holes=[(0, 3), (1, 3), (2, 0)]),
            # a block of holes in a corner whose rim nodes keep their coordinates: the corner node is the extreme point of
            # the node grid but a corner of no cell
            dict(ny=3, nx=3, shape="skew", holes=[(0, 0), (0, 1), (1, 0), (1, 1)], orphan_nodes=True),
            dict(ny=3, nx=3, shape="skew2", holes=[(1, 1), (1, 2), (2, 1), (2, 2)], orphan_nodes=True),
        ]
        if not quick:
            for _ in range(6):
                ny, nx = rng.randint(2, 5), rng.randint(2, 6)
                holes = sorted({(rng.randrange(ny), rng.randrange(nx)) for _ in range(rng.randint(0, 3))})
                combos.append(dict(ny=ny, nx=nx, shape=rng.choice(["rect", "skew", "skew2"]), holes=holes))
        for c in combos:
            c = dict(c); ny = c.pop("ny"); nx = c.pop("nx")
            out.append(structured_world(conv, ny, nx, **c))
            if len(out) % 2 == 0:
                out[-1]["first_var"] = "flag"
    if "ugrid" in convs:
        encs = [dict(base=0, fill="intfill"), dict(base=1, fill="intfill"), dict(base=1, fill="nan"),
                dict(base=0, fill="nan", transposed=True), dict(base=0, fill="none", coords_as="coords"),
                dict(base=1, fill="intfill", fillvalue=0), dict(base=0, fill="intfill", fillvalue=-1)]
        for k, cells in enumerate(FAMILY):
            enc = encs[k % len(encs)]
            out.append(mesh_world(W.mesh_from_squares(cells, shape=["skew", "rect", "skew2"][k % 3]), enc=enc,
                                  edges=(k % 2 == 0), centres=(k % 3 == 1)))
        # a uniform mesh (every face has the same number of nodes: no fill value anywhere), one-based, plain integers
        out.append(mesh_world(W.mesh_from_squares([["Q", "Q", "Q"], ["Q", "Q", "Q"]], shape="skew"), enc=dict(base=1, fill="none"), edges=True))
        out[-1]["pin_via"] = "memory"        # as built in memory: the connectivity stays a plain integer array
        n_rand = 4 if quick else 25
        for k in range(n_rand):
            wd, h = (rng.randint(3, 6), rng.randint(3, 5)) if big else (rng.randint(2, 3), rng.randint(2, 3))
            m = W.random_mesh(rng, wd, h, shape=rng.choice(["rect", "skew", "skew2"]))
            out.append(mesh_world(m, enc=rng.choice(encs), edges=rng.random() < .5, centres=rng.random() < .3))
    # (worlds added later go to the END of the list: positions decide how a world is written down and held)
    for conv in ("shoc_standard", "arakawa"):
        if conv not in convs:
            continue
        # six-degree cells whose longitudes fall on whole degrees and are stored as 32-bit integers, while the latitudes
        # are doubles on half degrees: the two coordinate arrays of one grid have different types
        wide = shifted(scaled(structured_world(conv, 2, 3, shape="rect"), 16), 64 * 100, 32)
        wide["lon_dtype"] = "int32"
        wide["pin_via"] = "memory"
        out.append(wide)
    if "cf1d" in convs:
        # explicit bounds whose rows are not chained: a descending axis with every row written (lower, upper), and cells
        # that stop short of their neighbours
        out.append(structured_world("cf1d", 3, 3, bounds=True, descending=(False, True), rows="minmax"))
        out.append(structured_world("cf1d", 2, 3, bounds=True, descending=(True, False), rows="minmax", gap=4, nonuniform=True))
        # a grid that straddles the equator and the prime meridian, the shared edge written +0.0 by one cell and -0.0 by the other
        nz = structured_world("cf1d", 2, 3, bounds=True)
        nz = shifted(nz, -nz["geom"]["xb"][1][0], -nz["geom"]["yb"][1][0])
        nz["negzero"] = True
        nz["pin_via"] = "memory"
        out.append(nz)
    for conv in ("cf2d", "shoc_simple"):
        if conv not in convs:
            continue
        nz = structured_world(conv, 2, 2, shape="rect", bounds=True)
        nz = shifted(nz, -nz["geom"]["xb"][0][0][1], -nz["geom"]["yb"][0][0][2])
        nz["negzero"] = True
        nz["pin_via"] = "memory"
        out.append(nz)
        lab = structured_world(conv, 2, 3, shape="skew", bounds=True)
        lab["dim_labels"] = True
        out.append(lab)
    if "ugrid" in convs:
        # every face has the same number of nodes but the table is wider (all quads in a table six wide, integer fill -1;
        # all triangles in a table four wide, large fill)
        out.append(mesh_world(W.mesh_from_squares([["Q", "Q"], ["Q", "Q"]], shape="skew"), enc=dict(base=0, fill="intfill", fillvalue=-1, pad_to=6), edges=True))
        out.append(mesh_world(W.mesh_from_squares([["A", "B"], ["B", "A"]], shape="rect"), enc=dict(base=1, fill="intfill", pad_to=4)))
        # coordinate attributes separated by two blanks; index coordinates on the mesh dimensions
        lab = mesh_world(W.mesh_from_squares([["Q", "A"], ["B", "Q"]], shape="skew"), enc=dict(base=0, fill="intfill", coord_sep="  "), edges=True, centres=True)
        lab["dim_labels"] = True
        out.append(lab)
    # grids whose ONLY cell with geometry is the very first one (linear index 0): single-cell grids, and a grid with every
    # other cell missing
    if "cf1d" in convs:
        out.append(structured_world("cf1d", 1, 1, bounds=True))
    if "cf2d" in convs:
        out.append(structured_world("cf2d", 1, 1, shape="skew", bounds=True))
        out.append(structured_world("cf2d", 2, 2, shape="rect", bounds=True, holes=[(0, 1), (1, 0), (1, 1)]))
    if "shoc_standard" in convs:
        out.append(structured_world("shoc_standard", 1, 1, shape="skew"))
    # round 13: SQUARE curvilinear grids without usable bounds whose coordinates nevertheless name a bounds variable of the
    # right SHAPE on the wrong dimensions - (x, y, 4) instead of (y, x, 4), or three unrelated dimensions.  The code ignores
    # such a variable (with a ConventionViolationWarning) and derives the corners from the centres, so the specification sees a
    # world without stored bounds; a reader that judges the variable by its shape alone takes cell (i, j)'s corners for (j, i)
    for conv, how in (("cf2d", "swapped"), ("shoc_simple", "unrelated"), ("cf2d", "unrelated")):
        if conv not in convs:
            continue
        dw = structured_world(conv, 3, 3, shape="skew", bounds=False)
        dw["decoy_bounds"] = {"how": how, "geom": structured_world(conv, 3, 3, shape="skew", bounds=True)["geom"]}
        dw["pin_via"] = "memory"
        out.append(dw)
    for w in out:
        # connectivity with an integer fill value next to the index range only exists undecoded, i.e. as built in memory
        if w["conv"] == "ugrid" and (w.get("enc") or {}).get("fillvalue") is not None:
            w["pin_via"] = "memory"
    for k, w in enumerate(out):
        if w["conv"] == "ugrid" and k % 2 == 0 and not w.get("pin_via"):
            w["first_var"] = "eta"      # a variable with the (size 2) time dimension declared before the mesh variables
    for k, w in enumerate(out):
        if k % 4 == 3:
            w["decoy"] = True           # see worlds.bind
        if w["conv"] in ("cf1d", "cf2d") and k % 3 == 0 and not w.get("pin_via"):
            w["bind"] = "explicit"      # see worlds.bind
            if w.get("via") == "emsopen" or True:
                w["no_emsopen"] = True
    for k, w in enumerate(out):
        g = w.get("geom") or {}
        desc = w["conv"] == "cf1d" and (g["xc"][0] > g["xc"][-1] or g["yc"][0] > g["yc"][-1])
        if k % 2 == 1 or desc:
            w["touch_first"] = ["geometry", "bounds"]      # see cellsdrv.execute_cells
    # other legal names for dimensions and coordinate variables (every third world)
    NAMES = {"cf1d": [{"lat": "latitude", "lon": "longitude", "ydim": "latitude", "xdim": "longitude", "lat_bounds": "latitude_bounds", "lon_bounds": "longitude_bounds"},
                      {"lat": "nav_lat", "lon": "nav_lon", "ydim": "rows", "xdim": "cols"}],     # coordinates that are not dimension coordinates
             "cf2d": [{"lat": "nav_lat", "lon": "nav_lon", "ydim": "rows", "xdim": "cols", "lat_bounds": "bounds_lat", "lon_bounds": "bounds_lon"},
                      {"lat": "gphit", "lon": "glamt", "ydim": "eta_rho", "xdim": "xi_rho"}],
             "ugrid": [{"face_dim": "cells", "node_dim": "vertices", "edge_dim": "sides", "max_dim": "corner", "two_dim": "pair"},
                       {"face_dim": "nface", "node_dim": "nnode", "edge_dim": "nedge", "max_dim": "nmax", "two_dim": "two"}]}
    for k, w in enumerate(out):
        if k % 3 == 2 and w["conv"] in NAMES and not w.get("names"):
            w["names"] = dict(NAMES[w["conv"]][(k // 3) % 2])
    # the same worlds held in different ways (see viafile.hold): deterministic in the position
    vias = ["memory", "file", "memory", "dask", "memory", "emsopen", "memory"]
    for k, w in enumerate(out):
        w["via"] = w.get("pin_via") or vias[k % len(vias)]
        if w.get("no_emsopen") and w["via"] == "emsopen":
            w["via"] = "file"           # (emsarray.open_dataset binds what it detects; a hand-made convention could not be bound)
        if w["conv"] in ("cf1d", "cf2d", "shoc_simple") and "xb" in w["geom"] and k % 3 == 1:
            w["bounds_as_coords"] = True
    return out


def probe_points(w: dict, rng: random.Random, limit: int = 60) -> list[list[int]]:
    """Query points (quanta) taken from the ABSTRACT geometry: every vertex, every edge midpoint, a point
    strictly inside every cell where an integral one exists, points just outside and far outside.
    Whether a point is inside anything is decided by the specification, not here."""
    pts: set[tuple[int, int]] = set()
    polys = abstract_polys(w)
    for poly in polys:
        if not poly:
            continue
        n = len(poly)
        for k in range(n):
            a, b = poly[k], poly[(k + 1) % n]
            pts.add((a[0], a[1]))
            if (a[0] + b[0]) % 2 == 0 and (a[1] + b[1]) % 2 == 0:
                pts.add(((a[0] + b[0]) // 2, (a[1] + b[1]) // 2))
        sx = sum(p[0] for p in poly); sy = sum(p[1] for p in poly)
        if sx % n == 0 and sy % n == 0:
            pts.add((sx // n, sy // n))
        a, b, c = poly[0], poly[1], poly[2]
        sx, sy = 2 * a[0] + b[0] + c[0], 2 * a[1] + b[1] + c[1]
        if sx % 4 == 0 and sy % 4 == 0:
            pts.add((sx // 4, sy // 4))
    allv = [p for poly in polys for p in poly]
    if allv:
        minx = min(p[0] for p in allv); maxx = max(p[0] for p in allv)
        miny = min(p[1] for p in allv); maxy = max(p[1] for p in allv)
        for p in [(minx - 6, miny - 6), (maxx + 6, maxy + 6), (minx - 6, (miny + maxy) // 2),
                  ((minx + maxx) // 2, maxy + 6), (minx - 500, miny - 500), (maxx + 777, maxy + 3)]:
            pts.add(p)
        for _ in range(12):
            pts.add((rng.randrange(minx - 12, maxx + 13, 3), rng.randrange(miny - 12, maxy + 13, 3)))
    lst = sorted(pts)
    if len(lst) > limit:
        lst = rng.sample(lst, limit)
    return [list(p) for p in lst]


def far_point(w: dict) -> list[int]:
    """a query point beyond every possible model (more than 1500 degrees east): certainly a miss"""
    return [100000, 100000]


def inner_points(w: dict) -> list[list[int]]:
    """integral points at the vertex average of cells (inside for convex cells; the specification decides)"""
    out = []
    for poly in abstract_polys(w):
        if not poly:
            continue
        n = len(poly)
        sx = sum(p[0] for p in poly); sy = sum(p[1] for p in poly)
        if sx % n == 0 and sy % n == 0:
            out.append([sx // n, sy // n])
    return out


def abstract_polys(w: dict) -> list[list[list[int]]]:
    """Raw cell rings from the abstract world for choosing probe points ONLY (never used as an oracle;
    for CF grids without stored bounds it returns the lattice cell, which is merely a good place to probe)."""
    conv = w["conv"]
    if conv == "ugrid":
        m = w["mesh"]
        return [[m["nodes"][k] for k in f] for f in m["faces"]]
    g = w["geom"]
    ny, nx = w["ny"], w["nx"]
    out = []
    if conv == "cf1d":
        def edges(c, b):
            if b:
                return [list(x) for x in b]
            if len(c) < 2:
                return [[c[0] - 12, c[0] + 12]]
            mids = [c[0] - (c[1] - c[0]) // 2] + [(c[k] + c[k + 1]) // 2 for k in range(len(c) - 1)] + [c[-1] + (c[-1] - c[-2]) // 2]
            return [[mids[k], mids[k + 1]] for k in range(len(c))]
        xb = edges(g["xc"], g.get("xb")); yb = edges(g["yc"], g.get("yb"))
        for j in range(ny):
            for i in range(nx):
                out.append([[xb[i][0], yb[j][0]], [xb[i][1], yb[j][0]], [xb[i][1], yb[j][1]], [xb[i][0], yb[j][1]]])
        return out
    if conv in ("cf2d", "shoc_simple"):
        f = W.affine(g["shape"])
        for j in range(ny):
            for i in range(nx):
                if [j, i] in g.get("holes", []):
                    out.append([list(f(i, j)), list(f(i + 1, j)), list(f(i + 1, j + 1)), list(f(i, j + 1))])
                else:
                    out.append([list(f(i, j)), list(f(i + 1, j)), list(f(i + 1, j + 1)), list(f(i, j + 1))])
        return out
    for j in range(ny):
        for i in range(nx):
            ring = [[g["xg"][a][b], g["yg"][a][b]] for a, b in ((j, i), (j, i + 1), (j + 1, i + 1), (j + 1, i))]
            out.append([] if any(W.NANQ in p for p in ring) else ring)
    return out


# ------------------------------------------------------------------ clip geometries
def clip_geometries(w: dict, rng: random.Random, *, count: int = 8) -> list[dict]:
    """A catalogue of abstract clip geometries (sequences of parts in quanta) built from the abstract cells:
    each is {"label", "parts": [{"t": "pt"|"ln"|"pg", "pts": [[x, y]...]}]}.  Which cells they hit is for TLC to say."""
    polys = [p for p in abstract_polys(w) if p]
    if not polys:
        return []
    allv = [p for poly in polys for p in poly]
    minx = min(p[0] for p in allv); maxx = max(p[0] for p in allv)
    miny = min(p[1] for p in allv); maxy = max(p[1] for p in allv)

    def centre(poly):
        a, b, c = poly[0], poly[1], poly[2]
        n = len(poly)
        sx = sum(p[0] for p in poly); sy = sum(p[1] for p in poly)
        if sx % n == 0 and sy % n == 0 and n == 4:
            return [sx // n, sy // n]
        return [(2 * a[0] + b[0] + c[0]) // 4, (2 * a[1] + b[1] + c[1]) // 4]

    def small_box(c, r=2):
        return [[c[0] - r, c[1] - r], [c[0] + r, c[1] - r], [c[0] + r, c[1] + r], [c[0] - r, c[1] + r]]

    out = []
    a = rng.choice(polys); b = rng.choice(polys)
    out.append({"label": "inside-cell", "parts": [{"t": "pg", "pts": small_box(centre(a))}]})
    out.append({"label": "cell-ring", "parts": [{"t": "pg", "pts": [list(p) for p in b]}]})       # touches its neighbours
    out.append({"label": "vertex-point", "parts": [{"t": "pt", "pts": [list(rng.choice(a))]}]})
    out.append({"label": "line", "parts": [{"t": "ln", "pts": [centre(a), centre(b)] if centre(a) != centre(b)
                                            else [centre(a), [centre(a)[0] + 30, centre(a)[1] + 6]]}]})
    k = rng.randrange(len(b))
    out.append({"label": "edge-line", "parts": [{"t": "ln", "pts": [list(b[k]), list(b[(k + 1) % len(b)])]}]})
    out.append({"label": "multi", "parts": [{"t": "pg", "pts": small_box(centre(a))},
                                            {"t": "pg", "pts": small_box(centre(polys[0]), 3)}]})
    out.append({"label": "cover-all", "parts": [{"t": "pg", "pts": [[minx - 12, miny - 12], [maxx + 12, miny - 12],
                                                                    [maxx + 12, maxy + 12], [minx - 12, maxy + 12]]}]})
    out.append({"label": "border-hug", "parts": [{"t": "pg", "pts": [[minx - 48, miny - 12], [minx, miny - 12],
                                                                     [minx, maxy + 12], [minx - 48, maxy + 12]]}]})
    out.append({"label": "outside", "parts": [{"t": "pg", "pts": small_box([maxx + 200, maxy + 200], 6)}]})
    out.append({"label": "point-multi", "parts": [{"t": "pt", "pts": [centre(a)]}, {"t": "pt", "pts": [list(b[0])]}]})
    return out


def to_shapely(geom: dict):
    import shapely
    from .worlds import SCALE
    parts = []
    for p in geom["parts"]:
        pts = [(x * SCALE, y * SCALE) for x, y in p["pts"]]
        if p["t"] == "pt":
            parts.append(shapely.Point(pts[0]))
        elif p["t"] == "ln":
            parts.append(shapely.LineString(pts))
        else:
            parts.append(shapely.Polygon(pts))
    if len(parts) == 1:
        return parts[0]
    kinds = {p["t"] for p in geom["parts"]}
    if kinds == {"pg"}:
        return shapely.MultiPolygon(parts)
    if kinds == {"pt"}:
        return shapely.MultiPoint(parts)
    if kinds == {"ln"}:
        return shapely.MultiLineString(parts)
    return shapely.GeometryCollection(parts)
