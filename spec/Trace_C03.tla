------------------------------ MODULE Trace_C03 ------------------------------
(***************************************************************************)
(* Trace validation for C03: recorded Convention.ravel / Convention.wind / *)
(* utils.ravel_dimensions / utils.wind_dimension calls replayed against    *)
(* RavelWind!SpecRavel / SpecWind; the declarative addressing clause is    *)
(* evaluated on every observed array as well.                              *)
(***************************************************************************)
EXTENDS RavelWind, Json, IOUtils, TLCExt

Log == ndJsonDeserialize(IOEnv.TRACE_FILE)

VARIABLES t, l, fails, seen, cur, lin, orig, origLin, kind
tvars == <<t, l, fails, seen, cur, lin, orig, origLin, kind>>

Rec == Log[t]
Ev  == Log[t].events[l]
G   == Log[t].w.G

Empty == [dims |-> <<>>, shape |-> <<>>, data |-> <<1>>, dtype |-> "f8"]

IsOkR(r) == "ok" \in DOMAIN r
Matches(obs, spec) ==
  IF IsOkR(spec) THEN ("ok" \in DOMAIN obs /\ obs.ok = spec.ok) ELSE "err" \in DOMAIN obs

\* the spec's answer to the current event
Answer(e) ==
  CASE e.a = "Ravel"  -> SpecRavel(G, cur, e.name)
    [] e.a = "URavel" -> SpecRavel([kinds |-> <<"u">>, dims |-> [u |-> e.dims], shape |-> [u |-> e.sizes]], cur, e.name)
    \* (the position of the linear dimension is read off the implementation's own previous result; once that has deviated
    \* from the specification's state it may not fit the latter any more: the answer is then "diverged", never an evaluation error)
    [] e.a = "Wind"   -> IF e.pos \in 1..Len(cur.dims) /\ cur.shape[e.pos] = ProdSeq(G.shape[e.kind])
                         THEN SpecWind(G, cur, e.kind, e.pos) ELSE [err |-> "diverged"]
    [] e.a = "UWind"  -> IF e.pos \in 1..Len(cur.dims) /\ cur.shape[e.pos] = ProdSeq(e.sizes)
                         THEN SpecWind([kinds |-> <<"u">>, dims |-> [u |-> e.dims], shape |-> [u |-> e.sizes]], cur, "u", e.pos)
                         ELSE [err |-> "diverged"]
    [] OTHER -> [err |-> "n/a"]

ShapeOK(B, k, linB) ==
  /\ WellFormedArray(B)
  /\ \A d \in Range1(OtherDims(G, orig, k, origLin)) :
        d \in Range1(B.dims) /\ B.shape[PosOf(B.dims, d)] = orig.shape[PosOf(orig.dims, d)]
  /\ IF linB # "" THEN linB \in Range1(B.dims) /\ B.shape[PosOf(B.dims, linB)] = ProdSeq(G.shape[k])
     ELSE \A p \in DOMAIN G.dims[k] :
            G.dims[k][p] \in Range1(B.dims) /\ B.shape[PosOf(B.dims, G.dims[k][p])] = G.shape[k][p]
  /\ Cardinality(Range1(B.dims)) =
        Cardinality(Range1(OtherDims(G, orig, k, origLin))) + (IF linB # "" THEN 1 ELSE Len(G.dims[k]))

ClauseNames == {"KnownAction", "RavelMatches", "WindMatches", "ValuesKeepAddress", "DtypeKept", "Refused"}

Clause(name, e) ==
  CASE name = "KnownAction" -> e.a \in {"Load", "Ravel", "URavel", "Wind", "UWind"}
    [] name = "RavelMatches" -> e.a \in {"Ravel", "URavel"} => Matches(e.obs, Answer(e))
    [] name = "WindMatches"  -> e.a \in {"Wind", "UWind"} => Matches(e.obs, Answer(e))
    [] name = "Refused" -> (e.a \in {"Ravel", "URavel"} /\ ~IsOkR(Answer(e))) => "err" \in DOMAIN e.obs
    [] name = "DtypeKept" ->
         (e.a # "Load" /\ "ok" \in DOMAIN e.obs) => e.obs.ok.dtype = cur.dtype
    [] name = "ValuesKeepAddress" ->
         \* declarative: whatever came back still addresses every original value
         \* by the same extra-index and the same cell (only for convention calls on a grid)
         (e.a \in {"Ravel", "Wind"} /\ "ok" \in DOMAIN e.obs /\ kind # "") =>
            LET B == e.obs.ok
                linB == IF e.a = "Ravel" THEN B.dims[Len(B.dims)] ELSE ""
            IN Len(B.dims) > 0 /\ ShapeOK(B, kind, linB)
               /\ SameAddressing(G, orig, B, kind, origLin, linB)

Failing(e) == {name \in ClauseNames : ~Clause(name, e)}

SeenOf(e) == {e.a, Rec.w.conv}
   \cup (IF "api" \in DOMAIN e THEN {"api-" \o e.api} ELSE {})
   \cup (IF e.a = "Load" /\ Len(e.arr.dims) >= 4 THEN {"3-extras"} ELSE {})
   \cup (IF e.a \in {"Ravel", "URavel"} /\ "err" \in DOMAIN e.obs THEN {"refused"} ELSE {})
   \cup (IF e.a = "Ravel" /\ e.name # NoName THEN {"custom-name"} ELSE {})
   \cup (IF e.a = "Ravel" /\ e.name = NoName /\ "index" \in Range1(cur.dims) THEN {"index-collision"} ELSE {})
   \cup (IF e.a = "Wind" THEN {"wind-" \o e.mode, "kind-" \o e.kind} ELSE {})
   \cup (IF e.a = "Wind" /\ e.pos < Len(cur.dims) THEN {"linear-not-last"} ELSE {})

Done == t > Len(Log)

TInit == /\ t = 1 /\ l = 1 /\ fails = {} /\ seen = {}
         /\ cur = Empty /\ orig = Empty /\ lin = "" /\ origLin = "" /\ kind = ""

Advance == IF l < Len(Rec.events) THEN l' = l + 1 /\ t' = t ELSE l' = 1 /\ t' = t + 1

Step ==
  /\ ~Done
  /\ fails' = fails \cup {<<Rec.tid, l, name>> : name \in Failing(Ev)}
  /\ seen' = seen \cup SeenOf(Ev)
  /\ IF Ev.a = "Load"
     THEN /\ cur' = Ev.arr /\ orig' = Ev.arr /\ lin' = Ev.lin /\ origLin' = Ev.lin /\ kind' = Ev.kind
     ELSE LET r == Answer(Ev)
          IN /\ UNCHANGED <<orig, origLin, kind>>
             /\ IF IsOkR(r)
                THEN /\ cur' = r.ok
                     /\ lin' = IF Ev.a \in {"Ravel", "URavel"} THEN r.ok.dims[Len(r.ok.dims)] ELSE ""
                ELSE UNCHANGED <<cur, lin>>
  /\ Advance

TSpec == TInit /\ [][Step]_tvars

Required == {"Load", "Ravel", "URavel", "Wind", "UWind", "api-make_linear", "refused", "custom-name", "index-collision",
             "wind-default", "wind-axis", "wind-negaxis", "wind-dim", "linear-not-last", "3-extras",
             "cf1d", "cf2d", "shoc_simple", "shoc_standard", "arakawa", "ugrid",
             "kind-face", "kind-left", "kind-back", "kind-node", "kind-edge"}

Verdict == [records |-> Len(Log), fails |-> SetToSeq(fails), seen |-> SetToSeq(seen),
            missing |-> IF "NO_REQUIRED" \in DOMAIN IOEnv THEN <<>> ELSE SetToSeq(Required \ seen)]
EmitVerdict == Done => JsonSerialize(IOEnv.VERDICT_FILE, Verdict)
=============================================================================
