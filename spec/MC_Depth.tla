------------------------------ MODULE MC_Depth ------------------------------
(***************************************************************************)
(* C12 / C13 on a bounded universe: one depth coordinate of K levels       *)
(* (every orientation, sign, attribute present or withheld, with or        *)
(* without bounds), a column variable with every validity pattern, a 2-D   *)
(* variable; histories of up to MaxSteps normalisations with any of the 9  *)
(* option combinations, and the ocean-floor reduction from any state.      *)
(***************************************************************************)
EXTENDS Depth, TLC

CONSTANTS Ks, MaxSteps

VARIABLES orig, prev, D, steps, lastpd, lastd2s, floor
vars == <<orig, prev, D, steps, lastpd, lastd2s, floor>>

Opts == {"none", "yes", "no"}

\* level values: physical depths 5, 15, 30, 50 stored in either order, with either sign
Phys == <<5, 15, 30, 50>>
ValsFor(K, down, deepfirst) ==
  LET p == [k \in 1..K |-> IF deepfirst THEN Phys[K + 1 - k] ELSE Phys[k]]
  IN [k \in 1..K |-> IF down THEN p[k] ELSE 0 - p[k]]
BoundsFor(vals) == [k \in 1..Len(vals) |-> <<vals[k] - 2, vals[k] + 3>>]

Coord(K, down, deepfirst, attr, withbounds) ==
  [name |-> "depth", dim |-> "k", vals |-> ValsFor(K, down, deepfirst),
   positive |-> IF attr THEN (IF down THEN "down" ELSE "up") ELSE "",
   bounds |-> IF withbounds THEN BoundsFor(ValsFor(K, down, deepfirst)) ELSE <<>>]

Patterns(K) == [1..K -> BOOLEAN]
DataSet(c, pat) ==
  LET K == Len(c.vals)
  IN [depths |-> <<c>>,
      vars |-> << [name |-> "a", dims |-> <<"k">>, shape |-> <<K>>, data |-> [k \in 1..K |-> IF pat[k] THEN 100 + k ELSE MISSING]],
                  [name |-> "b", dims |-> <<"x", "k">>, shape |-> <<2, K>>, data |-> [q \in 1..(2 * K) |-> 200 + q]] >>]

Init ==
  /\ \E K \in Ks : \E down, deepfirst, attr, wb \in BOOLEAN : \E pat \in Patterns(K) :
        orig = DataSet(Coord(K, down, deepfirst, attr, wb), pat)
  /\ D = orig /\ prev = orig /\ steps = 0 /\ lastpd = "none" /\ lastd2s = "none" /\ floor = <<>>

Norm == /\ steps < MaxSteps /\ floor = <<>>
        /\ \E pd, d2s \in Opts :
             /\ D' = Normalise(D, pd, d2s) /\ lastpd' = pd /\ lastd2s' = d2s
        /\ prev' = D /\ steps' = steps + 1 /\ UNCHANGED <<orig, floor>>

\* ocean floor of the column variable "a" from the current state: normalise (down, shallow first), argmax of the valid count
Floor == /\ floor = <<>>
         /\ LET N == Normalise(D, "yes", "no")
                col == N.vars[1].data
            IN floor' = <<col[FloorIndex(col)]>>
         /\ UNCHANGED <<orig, prev, D, steps, lastpd, lastd2s>>

Next == Norm \/ Floor
Spec == Init /\ [][Next]_vars

C0 == orig.depths[1]
C1 == D.depths[1]
K0 == Len(C0.vals)

\* ------------------------------------------------------------------- C13
\* every data value is still attached to the same physical depth (variable b has no missing values)
PhysDepthPreserved ==
  {<<D.vars[2].data[k], PhysDepth(C1, k)>> : k \in 1..K0} = {<<orig.vars[2].data[k], PhysDepth(C0, k)>> : k \in 1..K0}
\* both rows of b and the column a are reordered together
DataMovesTogether ==
  /\ \A k \in 1..K0 : D.vars[2].data[K0 + k] = D.vars[2].data[k] + K0
  /\ \A k \in 1..K0 : (D.vars[1].data[k] = MISSING \/ D.vars[1].data[k] - 100 = D.vars[2].data[k] - 200)
SignAsRequested ==
  (steps > 0 /\ lastpd # "none") =>
     /\ C1.positive = (IF lastpd = "yes" THEN "down" ELSE "up")
     /\ \A k \in 1..K0 : (IF lastpd = "yes" THEN C1.vals[k] ELSE 0 - C1.vals[k]) \in {Phys[m] : m \in 1..4}
OrderAsRequested ==
  (steps > 0 /\ lastd2s # "none") =>
     \A k \in 1..(K0 - 1) :
        IF lastd2s = "yes" THEN PhysDepth(C1, k) > PhysDepth(C1, k + 1) ELSE PhysDepth(C1, k) < PhysDepth(C1, k + 1)
BoundsFollow ==
  C0.bounds # <<>> =>
     /\ Len(C1.bounds) = K0
     /\ \A k \in 1..K0 : {C1.bounds[k][1] - C1.vals[k], C1.bounds[k][2] - C1.vals[k]} \in {{-2, 3}, {2, -3}}
     /\ \A k \in 1..K0 : (C1.vals[k] > 0) = (C1.bounds[k][2] + C1.bounds[k][1] > 0)
Idempotent == steps > 0 => Normalise(D, lastpd, lastd2s) = D
UnsetUntouched ==
  steps > 0 =>
     /\ (lastpd = "none" => (C1.positive = prev.depths[1].positive /\ C1.vals \in {prev.depths[1].vals, Rev(prev.depths[1].vals)}))
     /\ (lastd2s = "none" => C1.vals \in {prev.depths[1].vals, Neg(prev.depths[1].vals)})
     /\ ((lastpd = "none" /\ lastd2s = "none") => D = prev)

\* ------------------------------------------------------------------- C12
FloorIsDeepestValid == floor # <<>> => floor[1] = DeepestValid(D.vars[1].data, C1)
\* ... and since normalisation preserves the value / depth pairing, it is the deepest valid value of the ORIGINAL column
FloorOfOriginal == floor # <<>> => floor[1] = DeepestValid(orig.vars[1].data, C0)
=============================================================================
