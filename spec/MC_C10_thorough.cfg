SPECIFICATION Spec
CONSTANTS
  Wd = 3
  Ht = 2
INVARIANT MeshIsValid
INVARIANT DerivedEdgeNode
INVARIANT DerivedFaceEdge
INVARIANT DerivedEdgeFace
INVARIANT DerivedFaceFace
INVARIANT EdgeFaceCounts
INVARIANT EncodingIndependent
CHECK_DEADLOCK FALSE
