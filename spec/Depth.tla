------------------------------- MODULE Depth -------------------------------
(***************************************************************************)
(* Depth coordinates, their normalisation and the ocean-floor reduction    *)
(* (operations/depth.py).                                                  *)
(*                                                                         *)
(* A depth coordinate is a record                                          *)
(*   [name, dim, vals : Seq(Int), positive : "up" | "down" | "" (absent),  *)
(*    bounds : Seq(<<Int, Int>>) or <<>>]                                  *)
(* A data set (for this module) is [depths : Seq(coordinate),              *)
(*   vars : Seq([name, dims, shape, data])] with data in C order, tags or  *)
(* MISSING.  Options are "none" | "yes" | "no".                            *)
(***************************************************************************)
EXTENDS Arrays

MISSING == -1

\* ----------------------------------------------------------- orientation
\* the orientation of the stored numbers: the attribute if present, else the documented guess
\* (more than half of the values positive => positive down)
DataPositiveDown(c) ==
  IF c.positive # "" THEN c.positive = "down"
  ELSE Cardinality({k \in 1..Len(c.vals) : c.vals[k] > 0}) * 2 > Len(c.vals)

\* physical depth (positive downwards) of level k
PhysDepth(c, k) == IF DataPositiveDown(c) THEN c.vals[k] ELSE 0 - c.vals[k]

Neg(s) == [k \in 1..Len(s) |-> 0 - s[k]]
NegB(b) == [k \in 1..Len(b) |-> <<0 - b[k][1], 0 - b[k][2]>>]
Rev(s) == [k \in 1..Len(s) |-> s[Len(s) + 1 - k]]

\* reverse an array along a named dimension
ReverseAlong(A, dim) ==
  IF dim \notin Range1(A.dims) THEN A
  ELSE LET p == PosOf(A.dims, dim)
       IN [A EXCEPT !.data = [q \in 1..Len(A.data) |->
             LET idx == UnravelRM(A.shape, q - 1)
                 src == [idx EXCEPT ![p] = A.shape[p] - 1 - idx[p]]
             IN A.data[RavelRM(A.shape, src) + 1]]]

\* ------------------------------------------------------------- normalise
\* normalize_depth_variables for ONE coordinate c of data set D, in the code's order of decisions
WantDown(opt) == opt = "yes"
NormaliseOne(D, ci, pd, d2s) ==
  LET c == D.depths[ci]
      attr == IF pd = "none" THEN c.positive ELSE (IF pd = "yes" THEN "down" ELSE "up")
      dataPD == DataPositiveDown(c)                       \* decided from the INPUT attribute / guess
      flip == pd # "none" /\ dataPD # WantDown(pd)
      vals1 == IF flip THEN Neg(c.vals) ELSE c.vals
      bnds1 == IF flip THEN NegB(c.bounds) ELSE c.bounds
      pd1 == IF flip THEN WantDown(pd) ELSE dataPD
      dataD2S == (vals1[1] > vals1[2]) = pd1
      rev == d2s # "none" /\ dataD2S # (d2s = "yes")
      c1 == [c EXCEPT !.positive = attr, !.vals = vals1, !.bounds = bnds1]
      D1 == [D EXCEPT !.depths[ci] = c1]
  IN IF ~rev THEN D1
     ELSE \* dataset.isel({dim: slice(None, None, -1)}): everything along that dimension is reversed
          [depths |-> [k \in 1..Len(D1.depths) |->
                         IF D1.depths[k].dim = c.dim
                         THEN [D1.depths[k] EXCEPT !.vals = Rev(@), !.bounds = Rev(@)]
                         ELSE D1.depths[k]],
           vars |-> [k \in 1..Len(D1.vars) |-> ReverseAlong(D1.vars[k], c.dim)]]

RECURSIVE NormaliseFrom(_, _, _, _)
NormaliseFrom(D, ci, pd, d2s) ==
  IF ci > Len(D.depths) THEN D ELSE NormaliseFrom(NormaliseOne(D, ci, pd, d2s), ci + 1, pd, d2s)
Normalise(D, pd, d2s) == NormaliseFrom(D, 1, pd, d2s)

\* does the call warn (a coordinate without a positive attribute has its orientation guessed)?
Warns(D) == \E ci \in 1..Len(D.depths) : D.depths[ci].positive = ""

\* ------------------------------------------------------------ ocean floor
\* the column of variable A at "other index" oidx (index over A's dims with the depth position ignored)
ColumnAt(A, dim, oidx) ==
  LET p == PosOf(A.dims, dim)
  IN [k \in 1..A.shape[p] |-> At(A, [oidx EXCEPT ![p] = k - 1])]

\* operational: argmax of the cumulative count of valid layers (first maximum), on a column ordered shallow -> deep
Count(col, k) == Cardinality({m \in 1..k : col[m] # MISSING})
FloorIndex(col) ==
  CHOOSE k \in 1..Len(col) : Count(col, k) = Count(col, Len(col)) /\ \A m \in 1..(k - 1) : Count(col, m) < Count(col, Len(col))

\* declarative: the value of the valid layer of greatest physical depth, MISSING if the column is empty
DeepestValid(col, c) ==
  LET valid == {k \in 1..Len(col) : col[k] # MISSING}
  IN IF valid = {} THEN MISSING
     ELSE col[CHOOSE k \in valid : \A m \in valid : PhysDepth(c, k) >= PhysDepth(c, m)]

\* reduce variable A along the depth dimension of coordinate c with the floor indexes taken from the reference
\* variable R (first variable of the group, first time step): result has A's dims without the depth dimension
DropAt(s, p) == SubSeq(s, 1, p - 1) \o SubSeq(s, p + 1, Len(s))


=============================================================================
