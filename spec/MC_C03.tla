------------------------------- MODULE MC_C03 -------------------------------
(***************************************************************************)
(* C03  Flattening and winding variables are exact inverses.               *)
(*                                                                         *)
(* State machine: `orig` is a variable (or fresh linear data) in some      *)
(* dimension layout, `cur` the array after the ravel / wind calls made so  *)
(* far, `lin` the name of cur's linear dimension ("" when cur is wound).   *)
(***************************************************************************)
EXTENDS RavelWind

CONSTANTS Grids,      \* set of grid descriptions
          Extras,     \* set of sets of <<name, size>> extra dimensions
          Depth       \* number of ravel / wind calls per behaviour

VARIABLES G, kind, orig, origLin, cur, lin, steps, last
vars == <<G, kind, orig, origLin, cur, lin, steps, last>>

Iota(n) == [p \in 1..n |-> p]

ArrayOf(dimsizes) ==   \* dimsizes: sequence of <<name, size>>
  LET dims == [p \in DOMAIN dimsizes |-> dimsizes[p][1]]
      shape == [p \in DOMAIN dimsizes |-> dimsizes[p][2]]
  IN [dims |-> dims, shape |-> shape, data |-> Iota(ProdSeq(shape)), dtype |-> "f8"]

GridPairs(g, k) == {<<g.dims[k][p], g.shape[k][p]>> : p \in DOMAIN g.dims[k]}

\* every layout: the grid dimensions of one kind and a set of extras in every order
WoundStarts(g) ==
  UNION {UNION {{ArrayOf(s) : s \in SetToSeqs(GridPairs(g, k) \cup ex)} : ex \in Extras}
         : k \in Range1(g.kinds)}

LinearStarts(g) ==
  UNION {UNION {{ArrayOf(s) : s \in SetToSeqs({<<"index", ProdSeq(g.shape[k])>>} \cup ex)}
                : ex \in {e \in Extras : \A p \in e : p[1] # "index"}}
         : k \in Range1(g.kinds)}

Init ==
  /\ G \in Grids
  /\ steps = 0 /\ last = "load"
  /\ \/ /\ orig \in WoundStarts(G) /\ origLin = "" /\ lin = ""
        /\ kind = GridKindOf(G, orig)
     \/ /\ orig \in LinearStarts(G) /\ origLin = "index" /\ lin = "index"
        /\ kind \in {k \in Range1(G.kinds) : ProdSeq(G.shape[k]) = orig.shape[PosOf(orig.dims, "index")]}
  /\ cur = orig

\* custom names, including one that collides with a flattened grid dimension
LinNames == {NoName, "cell", G.dims[kind][1]}

DoRavel ==
  /\ lin = "" /\ steps < Depth
  /\ \E nm \in LinNames :
       LET r == SpecRavel(G, cur, nm)
       IN /\ "ok" \in DOMAIN r
          /\ cur' = r.ok
          /\ lin' = r.ok.dims[Len(r.ok.dims)]
  /\ steps' = steps + 1 /\ last' = "ravel"
  /\ UNCHANGED <<G, kind, orig, origLin>>

DoWind ==
  /\ lin # "" /\ steps < Depth
  /\ cur' = SpecWind(G, cur, kind, PosOf(cur.dims, lin)).ok
  /\ lin' = ""
  /\ steps' = steps + 1 /\ last' = "wind"
  /\ UNCHANGED <<G, kind, orig, origLin>>

Next == DoRavel \/ DoWind
Spec == Init /\ [][Next]_vars

\* ------------------------------------------------------------ property
WellFormed == WellFormedArray(cur)

\* values are only moved: every value keeps its (extra-index, cell) address,
\* other dimensions and their order are untouched -- in every reachable state,
\* hence wind(ravel(x)) and ravel(wind(y)) hold the original values
ValuesKeepAddress == SameAddressing(G, orig, cur, kind, origLin, lin)

\* multiset of values unchanged (here: a permutation of 1..N)
ValuesOnlyMoved == Range1(cur.data) = Range1(orig.data) /\ Len(cur.data) = Len(orig.data)

\* layout after each call
LayoutAfterRavel == last = "ravel" => cur.dims[Len(cur.dims)] = lin /\ cur.shape[Len(cur.shape)] = ProdSeq(G.shape[kind])

GridDimsInConventionOrder ==
  lin = "" /\ last = "wind" =>
     \E p \in DOMAIN cur.dims : SubSeq(cur.dims, p, p + Len(G.dims[kind]) - 1) = G.dims[kind]

\* wind(ravel(x)) has the dims of x with the grid dims moved to the end in convention order
WindAfterRavelDims ==
  (steps = 2 /\ origLin = "" /\ lin = "") =>
     cur.dims = OtherDims(G, orig, kind, "") \o G.dims[kind]

\* ravel(wind(y)) = y when y's linear dimension is last and named as flattened
RavelAfterWindIdentity ==
  (steps = 2 /\ origLin # "" /\ lin # "" /\ orig.dims[Len(orig.dims)] = origLin) =>
     /\ cur.data = orig.data
     /\ cur.shape = orig.shape
     /\ SubSeq(cur.dims, 1, Len(cur.dims) - 1) = SubSeq(orig.dims, 1, Len(orig.dims) - 1)

\* a variable on no grid is refused
NoGridRefused ==
  \A A \in {ArrayOf(s) : s \in UNION {SetToSeqs(ex) : ex \in Extras}} :
     "err" \in DOMAIN SpecRavel(G, A, NoName)

\* a variable that only has SOME of a grid's dimensions is refused too
PartialGridRefused ==
  \A k \in Range1(G.kinds) : Len(G.dims[k]) = 2 =>
     "err" \in DOMAIN SpecRavel(G, ArrayOf(<<<<G.dims[k][1], G.shape[k][1]>>, <<"t", 2>>>>), NoName)

=============================================================================
