------------------------------ MODULE MC_System ------------------------------
(* EmsSystem instantiated with a base world read from a JSON file (the same   *)
(* file the session driver concretises).                                       *)
EXTENDS EmsSystem, IOUtils
SysBase == JsonDeserialize(IOEnv.SYS_BASE)
SysVarChoices == {{}, {SysBase.vars[1].name}}
=============================================================================
