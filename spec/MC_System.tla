------------------------------ MODULE MC_System ------------------------------
(* EmsSystem instantiated with a base world read from a JSON file (the same   *)
(* file the session driver concretises).                                       *)
EXTENDS EmsSystem, IOUtils, SequencesExt
SysBase == JsonDeserialize(IOEnv.SYS_BASE)
SysVarChoices == {{}, {SysBase.vars[1].name}}
\* request lists for Extract: the valid cells in ascending order, v[1] .. v[n]
SysValid == SetToSortSeq(ValidCells(SysBase), <)
SysPointLists == LET v == SysValid  n == Len(v)
                 IN {<<v[n], v[1]>>, <<v[2], v[n], v[1], v[n]>>, <<v[n - 1]>>}
=============================================================================
