SPECIFICATION Spec
CONSTANTS
  Ks = {2, 3, 4}
  MaxSteps = 3
INVARIANT PhysDepthPreserved
INVARIANT DataMovesTogether
INVARIANT SignAsRequested
INVARIANT OrderAsRequested
INVARIANT BoundsFollow
INVARIANT Idempotent
INVARIANT UnsetUntouched
INVARIANT FloorIsDeepestValid
INVARIANT FloorOfOriginal
CHECK_DEADLOCK FALSE
