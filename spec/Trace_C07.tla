------------------------------ MODULE Trace_C07 ------------------------------
(***************************************************************************)
(* Trace validation for C07: the masking primitives over their whole       *)
(* bounded universe (enumeration order checked, so completeness is         *)
(* verified by TLC), make_clip_mask on every convention for a catalogue of *)
(* lattice geometries, buffer_faces / mask_from_face_indexes on meshes.    *)
(***************************************************************************)
EXTENDS Cells, Masking, TLC, Json, IOUtils, TLCExt

Log == ndJsonDeserialize(IOEnv.TRACE_FILE)

VARIABLES t, l, fails, seen, polys, cnt
tvars == <<t, l, fails, seen, polys, cnt>>
Rec == Log[t]
Ev  == Log[t].events[l]
W0  == Log[t].w

PolysOf(ww) == IF ww.conv = "none" THEN <<>> ELSE [n \in 1..FaceCount(ww) |-> PolyAt(ww, n - 1)]
Ok(e) == "ok" \in DOMAIN e.obs
Is(e, a) == e.a = a /\ Ok(e)

Pow2(n) == 2 ^ n
BitsArray(idx, hh, ww) == [j \in 1..hh |-> [i \in 1..ww |-> (idx \div Pow2((j - 1) * ww + (i - 1))) % 2 = 1]]

HitG(g) == {n \in 0..(Len(polys) - 1) : polys[n + 1] # <<>> /\ GeomMeetsPoly(g, polys[n + 1])}
HitCells(ww, g) == {LET ji == UnravelRM(<<ww.ny, ww.nx>>, n) IN <<ji[1], ji[2]>> : n \in HitG(g)}

KeptIdx(tbl) == {x - 1 : x \in {x \in 1..Len(tbl) : tbl[x] >= 0}}
SetOf(s) == {s[k] : k \in 1..Len(s)}

\* edges (as 0-based positions in the supplied edge-node table) that belong to at least one face of F
EdgePairs(faces, f) == {{faces[f + 1][k], faces[f + 1][(k % Len(faces[f + 1])) + 1]} : k \in 1..Len(faces[f + 1])}
EdgesOfFaces(ww, F) == {x - 1 : x \in {x \in 1..Len(ww.mesh.edges) :
                           \E f \in F : {ww.mesh.edges[x][1], ww.mesh.edges[x][2]} \in EdgePairs(ww.mesh.faces, f)}}

MeshTablesOK(ww, tabs, F) ==      \* tabs = [face, node, edge] old -> new tables for the kept face set F
  /\ Len(tabs.face) = ww.nface /\ KeptIdx(tabs.face) = F
  /\ Len(tabs.node) = ww.nnode /\ KeptIdx(tabs.node) = NodesOfFaces(ww.mesh.faces, F)
  /\ IF ww.nedge >= 0 THEN Len(tabs.edge) = ww.nedge /\ KeptIdx(tabs.edge) = EdgesOfFaces(ww, F)
     ELSE Len(tabs.edge) = 0

ClauseNames == {"Completed", "EnumOrder", "BlurIsGrow", "SmearIsIncidence", "CMaskIncidence",
                "ClipHits", "ClipIncidence", "ClipMeshSets", "RenumberInOrder", "Monotone",
                "BufferRing", "MaskFromFacesSets"}

Clause(name, ww, e) ==
  CASE name = "Completed" -> Ok(e)
    [] name = "EnumOrder" ->
         \* (idx = -1: an array that was not produced by the enumeration, e.g. recorded from the repository's tests)
         (e.a \in {"Blur", "Smear"} /\ e.idx >= 0) =>
            /\ e.m = BitsArray(e.idx, e.h, e.w)
            /\ e.idx = (IF e.group \in DOMAIN cnt THEN cnt[e.group] ELSE 0)
    [] name = "BlurIsGrow" ->
         Is(e, "Blur") =>
            /\ H(e.obs.ok) = e.h /\ Wd(e.obs.ok) = e.w
            /\ Marked(e.obs.ok) = Grow(Marked(e.m), e.size, e.h, e.w)
    [] name = "SmearIsIncidence" ->
         Is(e, "Smear") =>
            LET hh == e.h + (IF e.axes[1] THEN 1 ELSE 0)  wd == e.w + (IF e.axes[2] THEN 1 ELSE 0)
                S == Marked(e.m)
            IN /\ H(e.obs.ok) = hh /\ Wd(e.obs.ok) = wd
               /\ Marked(e.obs.ok) = (IF e.axes[1] /\ e.axes[2] THEN Incidence(S, hh, wd, FacesOfNode)
                                      ELSE IF e.axes[1] THEN Incidence(S, hh, wd, FacesOfBack)
                                      ELSE IF e.axes[2] THEN Incidence(S, hh, wd, FacesOfLeft)
                                      ELSE S)
    [] name = "CMaskIncidence" ->
         Is(e, "CMask") =>
            LET S == Marked(e.m)  hh == H(e.m)  wd == Wd(e.m)
            IN /\ e.obs.ok.face = e.m
               /\ Marked(e.obs.ok.left) = Incidence(S, hh, wd + 1, FacesOfLeft) /\ H(e.obs.ok.left) = hh /\ Wd(e.obs.ok.left) = wd + 1
               /\ Marked(e.obs.ok.back) = Incidence(S, hh + 1, wd, FacesOfBack) /\ H(e.obs.ok.back) = hh + 1 /\ Wd(e.obs.ok.back) = wd
               /\ Marked(e.obs.ok.node) = Incidence(S, hh + 1, wd + 1, FacesOfNode) /\ H(e.obs.ok.node) = hh + 1 /\ Wd(e.obs.ok.node) = wd + 1
    [] name = "ClipHits" ->
         (Is(e, "ClipMask") /\ ~IsUGrid(ww)) =>
            /\ H(e.obs.ok.face) = ww.ny /\ Wd(e.obs.ok.face) = ww.nx
            /\ Marked(e.obs.ok.face) = Grow(HitCells(ww, e.geom), e.buffer, ww.ny, ww.nx)
    [] name = "ClipIncidence" ->
         (Is(e, "ClipMask") /\ IsArakawa(ww)) =>
            LET S == Marked(e.obs.ok.face)
            IN /\ Marked(e.obs.ok.left) = Incidence(S, ww.ny, ww.nx + 1, FacesOfLeft)
               /\ Marked(e.obs.ok.back) = Incidence(S, ww.ny + 1, ww.nx, FacesOfBack)
               /\ Marked(e.obs.ok.node) = Incidence(S, ww.ny + 1, ww.nx + 1, FacesOfNode)
    [] name = "ClipMeshSets" ->
         (Is(e, "ClipMask") /\ IsUGrid(ww)) =>
            MeshTablesOK(ww, e.obs.ok, BufferN(ww.mesh.faces, HitG(e.geom), e.buffer))
    [] name = "RenumberInOrder" ->
         (Ok(e) /\ e.a \in {"ClipMask", "MaskFromFaces"} /\ IsUGrid(ww)) =>
            RenumbersInOrder(e.obs.ok.face) /\ RenumbersInOrder(e.obs.ok.node) /\ RenumbersInOrder(e.obs.ok.edge)
    [] name = "Monotone" ->
         (Is(e, "ClipMask") /\ e.sub > 0 /\ "ok" \in DOMAIN Rec.events[e.sub].obs) =>
            LET small == Rec.events[e.sub].obs.ok
            IN IF IsUGrid(ww) THEN KeptIdx(small.face) \subseteq KeptIdx(e.obs.ok.face)
               ELSE Marked(small.face) \subseteq Marked(e.obs.ok.face)
    [] name = "BufferRing" ->
         Is(e, "BufferFaces") =>
            /\ SetOf(e.obs.ok) = BufferFaces(ww.mesh.faces, SetOf(e.faces))
            /\ Len(e.obs.ok) = Cardinality(SetOf(e.obs.ok))
    [] name = "MaskFromFacesSets" ->
         Is(e, "MaskFromFaces") => MeshTablesOK(ww, e.obs.ok, SetOf(e.faces))

Failing(ww, e) == {name \in ClauseNames : ~Clause(name, ww, e)}

SeenOf(ww, e) ==
  {e.a} \cup (IF ww.conv # "none" THEN {ww.conv} ELSE {})
  \cup (IF e.a = "ClipMask" THEN {"buffer-" \o ToString(e.buffer)} \cup {"geom-" \o e.label}
           \cup (IF HitG(e.geom) = {} THEN {"no-hit"} ELSE {})
           \cup (IF e.sub > 0 THEN {"monotone-pair"} ELSE {})
           \cup (IF IsUGrid(ww) /\ ww.nface > 10 THEN {"mesh-beyond-one-leaf"} ELSE {})
           \cup (IF IsUGrid(ww) /\ ww.nedge >= 0 THEN {"mesh-with-edges"} ELSE {})
        ELSE {})

Done == t > Len(Log)
TInit == /\ t = 1 /\ l = 1 /\ fails = {} /\ seen = {} /\ cnt = <<>>
         /\ polys = IF Len(Log) > 0 THEN PolysOf(Log[1].w) ELSE <<>>
Advance ==
  IF l < Len(Rec.events) THEN l' = l + 1 /\ t' = t /\ UNCHANGED polys
  ELSE /\ l' = 1 /\ t' = t + 1
       /\ polys' = IF t + 1 <= Len(Log) THEN PolysOf(Log[t + 1].w) ELSE <<>>
Step ==
  /\ ~Done
  /\ fails' = fails \cup {<<Rec.tid, l, name>> : name \in Failing(W0, Ev)}
  /\ seen' = seen \cup SeenOf(W0, Ev)
  /\ cnt' = IF Ev.a \in {"Blur", "Smear"}
            THEN [g \in DOMAIN cnt \cup {Ev.group} |->
                    IF g = Ev.group THEN (IF g \in DOMAIN cnt THEN cnt[g] ELSE 0) + 1 ELSE cnt[g]]
            ELSE cnt
  /\ Advance
TSpec == TInit /\ [][Step]_tvars

\* completeness of the primitive universes: every group saw indexes 0 .. 2^(h*w) - 1, in order
Groups == [g \in DOMAIN cnt |-> cnt[g]]
Verdict == [records |-> Len(Log), fails |-> SetToSeq(fails), seen |-> SetToSeq(seen), missing |-> <<>>,
            groups |-> Groups]
EmitVerdict == Done => JsonSerialize(IOEnv.VERDICT_FILE, Verdict)
=============================================================================
