------------------------------- MODULE Clip -------------------------------
(***************************************************************************)
(* Applying a clip mask (masking.mask_grid_dataset, UGrid.apply_clip_mask) *)
(* and what it means for values (C08) and for geometry / topology (C09).   *)
(*                                                                         *)
(* A mask is, per grid kind, the set of selected cells (0-based linear     *)
(* indexes of that kind).  For structured conventions the dataset is       *)
(* cropped, per grid dimension, to the bounding range of the mask of the   *)
(* kind that owns the dimension, and unselected cells are blanked in every *)
(* variable that can represent a missing value.  For meshes the selected   *)
(* rows are kept in order.                                                 *)
(*                                                                         *)
(* Variables carry  fillkind \in {"float", "attr", "none"}:                *)
(*   float - NaN can be written;  attr - an integer with a _FillValue or   *)
(*   missing_value attribute;  none - cannot represent a missing value.    *)
(***************************************************************************)
EXTENDS Cells, Masking

Maskable(v) == v.fillkind # "none"

\* ---------------------------------------------------------- structured grids
\* 2-D cell <<j, i>> of linear index n on kind k
CellOf(w, k, n) == LET u == UnravelRM(KindShape(w, k), n) IN <<u[1], u[2]>>
CellsOfMask(w, k, S) == {CellOf(w, k, n) : n \in S}

\* crop range [lo, hi] (inclusive, 0-based) of axis a (1 or 2) of kind k
Lo(w, k, S, a) == SetMin({c[a] : c \in CellsOfMask(w, k, S)})
Hi(w, k, S, a) == SetMax({c[a] : c \in CellsOfMask(w, k, S)})

\* The masks of every kind from the face selection: Arakawa edges and nodes by incidence
KindMask(w, F, k) ==
  IF k = "face" THEN F
  ELSE LET ny == w.ny  nx == w.nx
           S == CellsOfMask(w, "face", F)
           hh == KindShape(w, k)[1]  ww == KindShape(w, k)[2]
           cells == IF k = "left" THEN Incidence(S, hh, ww, FacesOfLeft)
                    ELSE IF k = "back" THEN Incidence(S, hh, ww, FacesOfBack)
                    ELSE Incidence(S, hh, ww, FacesOfNode)
       IN {RavelRM(<<hh, ww>>, <<c[1], c[2]>>) : c \in cells}

\* the cropped shape of variable v (on kind v.kind, possibly only some of its grid dims present)
CropShape(w, v, F) ==
  [p \in 1..Len(v.dims) |->
     IF \E g \in 1..Len(v.gridpos) : v.gridpos[g] = p
     THEN LET g == CHOOSE g \in 1..Len(v.gridpos) : v.gridpos[g] = p
              S == KindMask(w, F, v.kind)
          IN Hi(w, v.kind, S, g) - Lo(w, v.kind, S, g) + 1
     ELSE v.shape[p]]

\* the result of applying the face selection F to variable v (offset = data offset of the object)
ApplyGridVar(w, v, F, offset) ==
  LET S == KindMask(w, F, IF v.kind = "" THEN "face" ELSE v.kind)
      shape == IF v.kind = "" THEN v.shape ELSE CropShape(w, v, F)
      Val(p) ==
        LET idx == UnravelRM(shape, p - 1)
            oidx == [q \in 1..Len(v.dims) |->
                       IF v.kind # "" /\ \E g \in 1..Len(v.gridpos) : v.gridpos[g] = q
                       THEN idx[q] + Lo(w, v.kind, S, CHOOSE g \in 1..Len(v.gridpos) : v.gridpos[g] = q)
                       ELSE idx[q]]
            stored == VarAtIdx(v, oidx)
            selected == IF OnGrid(v)
                        THEN RavelRM(KindShape(w, v.kind), [g \in 1..Len(v.gridpos) |-> oidx[v.gridpos[g]]]) \in S
                        ELSE TRUE        \* not (wholly) on a grid: no mask applies
        IN IF stored = MISSING THEN MISSING
           ELSE IF Maskable(v) /\ ~selected THEN MISSING ELSE stored + offset
  IN [dims |-> v.dims, shape |-> shape, data |-> [p \in 1..ProdSeq(shape) |-> Val(p)]]

\* original linear index (face grid) of result cell r of the cropped face grid
OrigOfResult(w, F, r) ==
  LET S == F
      h2 == Hi(w, "face", S, 1) - Lo(w, "face", S, 1) + 1
      w2 == Hi(w, "face", S, 2) - Lo(w, "face", S, 2) + 1
      u == UnravelRM(<<h2, w2>>, r)
  IN RavelRM(<<w.ny, w.nx>>, <<u[1] + Lo(w, "face", S, 1), u[2] + Lo(w, "face", S, 2)>>)
ResultFaceCount(w, F) ==
  (Hi(w, "face", F, 1) - Lo(w, "face", F, 1) + 1) * (Hi(w, "face", F, 2) - Lo(w, "face", F, 2) + 1)

\* ------------------------------------------------------------------ meshes
KeptSeq(S, n) == SelectSeq([x \in 1..n |-> x - 1], LAMBDA x : x \in S)

ApplyMeshVar(w, v, masks, offset) ==      \* masks: [face, node, edge] sets of kept elements
  IF ~OnGrid(v) THEN
     [dims |-> v.dims, shape |-> v.shape,
      data |-> [p \in 1..ProdSeq(v.shape) |->
                  LET s == VarAtIdx(v, UnravelRM(v.shape, p - 1)) IN IF s = MISSING THEN MISSING ELSE s + offset]]
  ELSE
     LET keep == KeptSeq(masks[v.kind], KindSize(w, v.kind))
         q == v.gridpos[1]
         shape == [p \in 1..Len(v.dims) |-> IF p = q THEN Len(keep) ELSE v.shape[p]]
         Val(p) == LET idx == UnravelRM(shape, p - 1)
                       oidx == [pp \in 1..Len(v.dims) |-> IF pp = q THEN keep[idx[pp] + 1] ELSE idx[pp]]
                       s == VarAtIdx(v, oidx)
                   IN IF s = MISSING THEN MISSING ELSE s + offset
     IN [dims |-> v.dims, shape |-> shape, data |-> [p \in 1..ProdSeq(shape) |-> Val(p)]]

\* connectivity through the old -> new tables: rows of kept row-elements, entries renumbered,
\* an entry that points at a dropped element becomes missing
NewIndex(S, x) == IF x \in S THEN Cardinality({y \in S : y < x}) ELSE -1
Reindex(tbl, rowkeep, colkeep) ==
  LET rows == KeptSeq(rowkeep, Len(tbl))
  IN [r \in 1..Len(rows) |-> [c \in 1..Len(tbl[rows[r] + 1]) |->
        IF tbl[rows[r] + 1][c] < 0 THEN -1 ELSE NewIndex(colkeep, tbl[rows[r] + 1][c])]]

=============================================================================
