------------------------------ MODULE Geometry ------------------------------
(***************************************************************************)
(* Cell polygons, face centres, validity mask and extent of a dataset, per *)
(* convention, computed from the abstract coordinate arrays of a world.    *)
(*                                                                         *)
(* World geometry (w.geom), all in quanta, NaN = NANQ:                     *)
(*   cf1d         xc[nx], yc[ny]; optional xb[nx] = <<lo,hi>>, yb[ny]      *)
(*   cf2d / shoc_simple  xc[ny][nx], yc[ny][nx]; optional xb, yb[ny][nx][4]*)
(*   shoc_standard / arakawa  xg, yg [(ny+1)][(nx+1)]; xc, yc centres       *)
(*   ugrid        w.mesh.nodes[k] = <<x,y>>, w.mesh.faces[f] = Seq(node)   *)
(*                (0-based node indexes, normalised), optional centres     *)
(* Linear index n is 0-based; sequences are 1-based.                       *)
(***************************************************************************)
EXTENDS Conventions, Lattice

NANQ == 1000000
INEXACT == 1073741824

HasField(r, f) == f \in DOMAIN r

\* ------------------------------------------------------------------ CF 1-D
\* CFGrid1DTopology._get_or_make_bounds: stored bounds, else mid points with
\* half-gap ends (values[0] - gap/2 ... values[-1] + gap/2).
Mid1(v, k) ==   \* k \in 0..Len(v): the k-th cell edge
  IF k = 0 THEN v[1] - (v[2] - v[1]) \div 2
  ELSE IF k = Len(v) THEN v[Len(v)] + (v[Len(v)] - v[Len(v) - 1]) \div 2
  ELSE (v[k] + v[k + 1]) \div 2

Bounds1(g, axis) ==   \* sequence of <<lo, hi>>
  IF axis = "x"
  THEN IF HasField(g, "xb") THEN g.xb ELSE [k \in 1..Len(g.xc) |-> <<Mid1(g.xc, k - 1), Mid1(g.xc, k)>>]
  ELSE IF HasField(g, "yb") THEN g.yb ELSE [k \in 1..Len(g.yc) |-> <<Mid1(g.yc, k - 1), Mid1(g.yc, k)>>]

PolyCF1D(g, j, i) ==   \* j, i 0-based
  LET xb == Bounds1(g, "x")[i + 1]  yb == Bounds1(g, "y")[j + 1]
  IN <<<<xb[1], yb[1]>>, <<xb[2], yb[1]>>, <<xb[2], yb[2]>>, <<xb[1], yb[2]>>>>

\* ------------------------------------------------------------------ CF 2-D
\* CFGrid2DTopology._get_or_make_bounds without stored bounds, per coordinate
\* array c (a sequence of rows).
NY(c) == Len(c)
NX(c) == Len(c[1])
InGrid(c, j, i) == j >= 0 /\ j < NY(c) /\ i >= 0 /\ i < NX(c)
IsNaNAt(c, j, i) == InGrid(c, j, i) /\ c[j + 1][i + 1] = NANQ   \* padding counts as not-NaN
Kept(c, j, i) ==
  IF ~InGrid(c, j, i) \/ c[j + 1][i + 1] = NANQ THEN NANQ
  ELSE IF (IsNaNAt(c, j - 1, i) /\ IsNaNAt(c, j + 1, i)) \/ (IsNaNAt(c, j, i - 1) /\ IsNaNAt(c, j, i + 1))
       THEN NANQ          \* "bounded by NaN on both sides" is discarded
       ELSE c[j + 1][i + 1]
GridPoint(c, gj, gi) ==    \* nanmean of the up-to-four surrounding centres
  LET around == <<Kept(c, gj - 1, gi - 1), Kept(c, gj - 1, gi), Kept(c, gj, gi - 1), Kept(c, gj, gi)>>
      vs == SelectSeq(around, LAMBDA v : v # NANQ)
  IN IF vs = <<>> THEN NANQ
     ELSE IF SumSeq(vs) % Len(vs) # 0 THEN INEXACT ELSE SumSeq(vs) \div Len(vs)
Corners2D(c, j, i) ==
  <<GridPoint(c, j, i), GridPoint(c, j, i + 1), GridPoint(c, j + 1, i + 1), GridPoint(c, j + 1, i)>>

HasNaN4(s) == \E k \in 1..4 : s[k] = NANQ

PolyCF2D(g, j, i) ==
  LET cx == IF HasField(g, "xb") THEN g.xb[j + 1][i + 1] ELSE Corners2D(g.xc, j, i)
      cy == IF HasField(g, "yb") THEN g.yb[j + 1][i + 1] ELSE Corners2D(g.yc, j, i)
      \* a cell without a centre coordinate of its own gets no synthesised bounds
      \* (fix: commit "CFGrid2D: no derived bounds for cells whose own centre is NaN")
      own == ~HasField(g, "xb") /\ (g.xc[j + 1][i + 1] = NANQ \/ g.yc[j + 1][i + 1] = NANQ)
  IN IF own \/ HasNaN4(cx) \/ HasNaN4(cy) THEN <<>>
     ELSE [k \in 1..4 |-> <<cx[k], cy[k]>>]

\* --------------------------------------------------------------- Arakawa C
PolyArakawa(g, j, i) ==
  LET P(a, b) == <<g.xg[a + 1][b + 1], g.yg[a + 1][b + 1]>>
      c == <<P(j, i), P(j, i + 1), P(j + 1, i + 1), P(j + 1, i)>>
  IN IF \E k \in 1..4 : c[k][1] = NANQ \/ c[k][2] = NANQ THEN <<>> ELSE c

\* ------------------------------------------------------------------- UGRID
PolyUGrid(m, f) ==   \* f 0-based
  [k \in 1..Len(m.faces[f + 1]) |-> m.nodes[m.faces[f + 1][k] + 1]]

\* ------------------------------------------------------ raw and valid cells
RawPoly(w, n) ==
  IF IsUGrid(w) THEN PolyUGrid(w.mesh, n)
  ELSE LET idx == UnravelRM(<<w.ny, w.nx>>, n)
       IN IF w.conv = "cf1d" THEN PolyCF1D(w.geom, idx[1], idx[2])
          ELSE IF IsArakawa(w) THEN PolyArakawa(w.geom, idx[1], idx[2])
          ELSE PolyCF2D(w.geom, idx[1], idx[2])

FaceCount(w) == KindSize(w, "face")

\* Validity as GEOS judges a ring: consecutive repeated points are ignored,
\* the remaining ring must be simple.  Rings that collapse (fewer than three
\* distinct consecutive points, or zero area) are "degenerate": the property
\* does not speak about them and no clause is evaluated on them.
DedupRing(P) ==
  LET keep == SelectSeq([k \in 1..Len(P) |-> k], LAMBDA k : P[k] # P[Nxt(P, k)])
  IN [k \in 1..Len(keep) |-> P[keep[k]]]
\* degenerate = collapsed (fewer than three distinct vertices, or a SIMPLE ring without area); a self-crossing ring whose
\* signed area happens to cancel (a symmetric bow-tie) is not degenerate, it is invalid - which is decidable
Degenerate(P) == P # <<>> /\ (Len(DedupRing(P)) < 3 \/ (Area2(P) = 0 /\ IsSimple(DedupRing(P))))
ValidRing(P) == Len(DedupRing(P)) >= 3 /\ IsSimple(DedupRing(P))

\* a self-intersecting cell is dropped (with a warning)
Invalid(w, n) == RawPoly(w, n) # <<>> /\ ~ValidRing(RawPoly(w, n))
PolyAt(w, n) == IF RawPoly(w, n) = <<>> \/ Invalid(w, n) THEN <<>> ELSE RawPoly(w, n)
MaskAt(w, n) == PolyAt(w, n) # <<>>
ValidCells(w) == {n \in 0..(FaceCount(w) - 1) : MaskAt(w, n)}
InvalidCells(w) == {n \in 0..(FaceCount(w) - 1) : Invalid(w, n)}

\* rings are compared up to rotation and direction (the property fixes the
\* cell, not the vertex the ring starts at)
Rot(P, s) == [k \in 1..Len(P) |-> P[((k - 1 + s) % Len(P)) + 1]]
Rev(P) == [k \in 1..Len(P) |-> P[Len(P) + 1 - k]]
SameRing0(P, Q) ==
  /\ Len(P) = Len(Q)
  /\ IF Len(P) = 0 THEN TRUE
     ELSE \E s \in 0..(Len(P) - 1) : Rot(P, s) = Q \/ Rot(Rev(P), s) = Q
\* ... and up to consecutive repeated points (a synthesised ring may name a corner twice; libraries may or may not
\* keep the repeat)
SameRing(P, Q) == SameRing0(DedupRing(P), DedupRing(Q))

\* ----------------------------------------------------------------- centres
\* face centres as the convention defines them (coordinate variables), or
\* NANQ; for UGRID without face coordinates the centroid is not modelled here
CentreAt(w, n) ==
  IF IsUGrid(w) THEN (IF HasField(w.mesh, "face_centres") THEN w.mesh.face_centres[n + 1] ELSE <<NANQ, NANQ>>)
  ELSE LET idx == UnravelRM(<<w.ny, w.nx>>, n)
       IN IF w.conv = "cf1d" THEN <<w.geom.xc[idx[2] + 1], w.geom.yc[idx[1] + 1]>>
          ELSE <<w.geom.xc[idx[1] + 1][idx[2] + 1], w.geom.yc[idx[1] + 1][idx[2] + 1]>>

\* ------------------------------------------------------------------ extent
AllVertices(w) ==
  UNION {{PolyAt(w, n)[k] : k \in 1..Len(PolyAt(w, n))} : n \in ValidCells(w)}

SetMin(S) == CHOOSE v \in S : \A u \in S : v <= u
SetMax(S) == CHOOSE v \in S : \A u \in S : v >= u

\* bounding box of the union of the cell polygons
ExtentBBox(w) ==
  LET V == AllVertices(w)
  IN <<SetMin({p[1] : p \in V}), SetMin({p[2] : p \in V}), SetMax({p[1] : p \in V}), SetMax({p[2] : p \in V})>>

\* twice the area of the union, when cells do not overlap
ExtentArea2(w) ==
  LET cells == ValidCells(w)
      RECURSIVE S(_)
      S(C) == IF C = {} THEN 0 ELSE LET n == CHOOSE n \in C : TRUE IN AbsI(Area2(PolyAt(w, n))) + S(C \ {n})
  IN S(cells)

\* membership of a point in the union of the cells
InExtent(w, p) == \E n \in ValidCells(w) : PointInClosedPoly(p, PolyAt(w, n))

=============================================================================
