------------------------------ MODULE Trace_C10 ------------------------------
(* Trace validation for C10: the normalised topology tables the implementation *)
(* reports for one mesh under many encodings, against Mesh.tla.                *)
EXTENDS Mesh, Geometry, TLC, Json, IOUtils, TLCExt

Log == ndJsonDeserialize(IOEnv.TRACE_FILE)
VARIABLES t, l, fails, seen
tvars == <<t, l, fails, seen>>
Rec == Log[t]
Ev  == Log[t].events[l]
W0  == Log[t].w
M0  == Log[t].w.mesh

OkT(e, nm) == "ok" \in DOMAIN e.obs[nm]
Tab(e, nm) == e.obs[nm].ok
Sup(e, nm) == \E k \in 1..Len(e.enc.supplied) : e.enc.supplied[k] = nm
\* edge numbering has a meaning only if edge-node connectivity defines it
EdgeNumbered(e) == Sup(e, "en") \/ (~Sup(e, "fe") /\ ~Sup(e, "ef"))

ClauseNames == {"WorldConsistent", "TablesAvailable", "FacesEncodingIndependent", "SuppliedUsedAsGiven", "ValidFlags",
                "EdgeNodeConsistent", "FaceEdgeConsistent", "EdgeFaceConsistent", "FaceFaceConsistent",
                "PolygonsFromFaces", "Dimensions", "TablesStable"}

Clause(name, ww, e) ==
  CASE name = "WorldConsistent" ->          \* sanity of the generated input itself
         /\ ValidMesh(M0.fn) /\ IsEdgeNodeFor(M0.fn, M0.en) /\ FaceEdgesAreConsecutivePairs(M0.fn, M0.en, M0.fe)
         /\ EdgeFacesExactlyContaining(M0.fn, M0.en, M0.ef) /\ FaceFaceSymmetricEdgeSharing(M0.fn, M0.ff)
    [] name = "TablesAvailable" ->
         OkT(e, "fn") /\ OkT(e, "en") /\ OkT(e, "fe") /\ OkT(e, "ef") /\ OkT(e, "ff") /\ "ok" \in DOMAIN e.obs.polys
    [] name = "FacesEncodingIndependent" -> OkT(e, "fn") => SameRows(Tab(e, "fn"), M0.fn)
    [] name = "SuppliedUsedAsGiven" ->
         /\ (Sup(e, "en") /\ OkT(e, "en")) => Tab(e, "en") = M0.en
         /\ (Sup(e, "fe") /\ OkT(e, "fe")) => SameRows(Tab(e, "fe"), M0.fe)
         /\ (Sup(e, "ef") /\ OkT(e, "ef")) => SameRows(Tab(e, "ef"), M0.ef)
         /\ (Sup(e, "ff") /\ OkT(e, "ff")) => SameRows(Tab(e, "ff"), M0.ff)
    [] name = "ValidFlags" ->
         /\ e.obs.has.en = Sup(e, "en") /\ e.obs.has.fe = Sup(e, "fe")
         /\ e.obs.has.ef = Sup(e, "ef") /\ e.obs.has.ff = Sup(e, "ff")
    [] name = "EdgeNodeConsistent" ->
         (OkT(e, "fn") /\ OkT(e, "en") /\ EdgeNumbered(e)) => IsEdgeNodeFor(Tab(e, "fn"), Tab(e, "en"))
    [] name = "FaceEdgeConsistent" ->
         (OkT(e, "fn") /\ OkT(e, "en") /\ OkT(e, "fe") /\ EdgeNumbered(e)) =>
            FaceEdgesAreConsecutivePairs(Tab(e, "fn"), Tab(e, "en"), Tab(e, "fe"))
    [] name = "EdgeFaceConsistent" ->
         (OkT(e, "fn") /\ OkT(e, "en") /\ OkT(e, "ef") /\ EdgeNumbered(e)) =>
            EdgeFacesExactlyContaining(Tab(e, "fn"), Tab(e, "en"), Tab(e, "ef"))
    [] name = "FaceFaceConsistent" ->
         (OkT(e, "fn") /\ OkT(e, "ff")) => FaceFaceSymmetricEdgeSharing(Tab(e, "fn"), Tab(e, "ff"))
    [] name = "PolygonsFromFaces" ->
         "ok" \in DOMAIN e.obs.polys =>
            /\ Len(e.obs.polys.ok) = Len(M0.faces)
            /\ \A n \in 1..Len(M0.faces) :
                 Degenerate(RawPoly(ww, n - 1)) \/ SameRing(e.obs.polys.ok[n], PolyAt(ww, n - 1))
    [] name = "TablesStable" ->
         \* asked again (same topology object, and a fresh convention object on the same dataset) every table reads as it
         \* did the first time: deriving one table does not disturb another
         \A nm \in {"fn", "en", "fe", "ef", "ff"} : (e.obs.again[nm] = e.obs[nm] /\ e.obs.fresh[nm] = e.obs[nm])
    [] name = "Dimensions" ->
         e.obs.dims = e.expectdims

Failing(ww, e) == {name \in ClauseNames : ~Clause(name, ww, e)}

SeenOf(ww, e) ==
  {"base-" \o ToString(e.enc.base), "fill-" \o e.enc.fill, "edge-" \o e.enc.edge_dim, "coords-" \o e.enc.coords_as}
  \cup (IF e.enc.transposed THEN {"transposed"} ELSE {"normal"})
  \cup {"supplied-" \o e.enc.supplied[k] : k \in 1..Len(e.enc.supplied)}
  \cup (IF Len(e.enc.supplied) = 0 THEN {"supplied-none"} ELSE {})
  \cup (IF ~EdgeNumbered(e) THEN {"edge-numbering-free"} ELSE {})
  \cup (IF "index_dtype" \in DOMAIN e.enc THEN {"narrow-index-type"} ELSE {})
  \cup (IF "resave" \in DOMAIN e.enc THEN {"saved-by-emsarray"} ELSE {})
  \cup (IF \E f \in 1..Len(M0.faces) : Len(M0.faces[f]) = 3 THEN {"triangle"} ELSE {})
  \cup (IF \E f \in 1..Len(M0.faces) : Len(M0.faces[f]) = 4 THEN {"quad"} ELSE {})
  \cup (IF \E f \in 1..Len(M0.faces) : Len(M0.faces[f]) > 4 THEN {"big-face"} ELSE {})
  \cup (IF \E x \in 1..Len(M0.ef) : Len(Present(M0.ef[x])) = 2 THEN {"interior-edge"} ELSE {})

Done == t > Len(Log)
TInit == t = 1 /\ l = 1 /\ fails = {} /\ seen = {}
Advance == IF l < Len(Rec.events) THEN l' = l + 1 /\ t' = t ELSE l' = 1 /\ t' = t + 1
Step == /\ ~Done
        /\ fails' = fails \cup {<<Rec.tid, l, name>> : name \in Failing(W0, Ev)}
        /\ seen' = seen \cup SeenOf(W0, Ev)
        /\ Advance
TSpec == TInit /\ [][Step]_tvars
Verdict == [records |-> Len(Log), fails |-> SetToSeq(fails), seen |-> SetToSeq(seen), missing |-> <<>>]
EmitVerdict == Done => JsonSerialize(IOEnv.VERDICT_FILE, Verdict)
=============================================================================
