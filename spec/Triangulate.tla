----------------------------- MODULE Triangulate -----------------------------
(***************************************************************************)
(* Triangulation of cell polygons (operations/triangulate.py).             *)
(* IsPartition is the result predicate the property states; Fan and        *)
(* EarClip transcribe the two mechanisms of the code.                      *)
(***************************************************************************)
EXTENDS Lattice, SequencesExt

Tri(a, b, c) == <<a, b, c>>
VSet(P) == {P[k] : k \in 1..Len(P)}

Scale(P, f) == [k \in 1..Len(P) |-> <<f * P[k][1], f * P[k][2]>>]
Centroid3(T) == <<T[1][1] + T[2][1] + T[3][1], T[1][2] + T[2][2] + T[3][2]>>     \* 3 x centroid

RECURSIVE SumAreas(_)
SumAreas(ts) == IF ts = <<>> THEN 0 ELSE AbsI(Area2(Head(ts))) + SumAreas(Tail(ts))

\* T (a sequence of triangles) exactly partitions the polygon P
IsPartition(P, T) ==
  /\ Len(T) = Len(P) - 2                                               \* n - 2 triangles
  /\ \A k \in 1..Len(T) : VSet(T[k]) \subseteq VSet(P)                  \* on the cell's own vertices
  /\ \A k \in 1..Len(T) : Area2(T[k]) # 0                               \* no degenerate triangle
  /\ \A k \in 1..Len(T) : StrictlyInside(Centroid3(T[k]), Scale(P, 3))  \* inside the cell
  /\ \A a, b \in 1..Len(T) : a < b => TrianglesDisjoint(T[a], T[b])     \* no overlap
  /\ SumAreas(T) = AbsI(Area2(P))                                       \* cover it exactly

\* ---- the code's fan (used when the polygon equals its convex hull vertex for vertex)
Fan(P) == [k \in 1..(Len(P) - 2) |-> Tri(P[1], P[k + 1], P[k + 2])]

\* ---- the code's ear clipping (used otherwise): the first i (no wrap-around) whose diagonal P[i] - P[i+2] is
\* covered by the polygon and meets the boundary in its two end points only
Mid2(a, b) == <<a[1] + b[1], a[2] + b[2]>>            \* 2 x mid point
DiagonalOK(P, i) ==
  LET a == P[i]  b == P[i + 2]
  IN /\ \A k \in 1..Len(P) :                            \* meets the boundary only in a and b
          LET c == P[k]  d == P[Nxt(P, k)]
          IN IF c = a \/ c = b \/ d = a \/ d = b
             THEN (c = a \/ c = b \/ ~OnSegment(c, a, b)) /\ (d = a \/ d = b \/ ~OnSegment(d, a, b))
                  /\ ~(OnSegment(a, c, d) /\ OnSegment(b, c, d))
             ELSE ~SegTouch(a, b, c, d)
     /\ StrictlyInside(Mid2(a, b), Scale(P, 2))         \* and runs through the interior
DropVertex(P, k) == SubSeq(P, 1, k - 1) \o SubSeq(P, k + 1, Len(P))
RECURSIVE EarClip(_)
EarClip(P) ==
  IF Len(P) = 3 THEN <<Tri(P[1], P[2], P[3])>>
  ELSE LET ok == {i \in 1..(Len(P) - 2) : DiagonalOK(P, i)}
       IN IF ok = {} THEN <<>>                          \* the code raises "Could not find interior diagonal"
          ELSE LET i == CHOOSE i \in ok : \A j \in ok : i <= j
               IN <<Tri(P[i], P[i + 1], P[i + 2])>> \o EarClip(DropVertex(P, i + 1))

\* the hull has as many vertices as the polygon: strictly convex
StrictlyConvex(P) ==
  \/ \A k \in 1..Len(P) : Cross(P[k], P[Nxt(P, k)], P[Nxt(P, Nxt(P, k))]) > 0
  \/ \A k \in 1..Len(P) : Cross(P[k], P[Nxt(P, k)], P[Nxt(P, Nxt(P, k))]) < 0
CodeTriangulation(P) == IF StrictlyConvex(P) THEN Fan(P) ELSE EarClip(P)
=============================================================================
