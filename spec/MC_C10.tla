------------------------------- MODULE MC_C10 -------------------------------
(***************************************************************************)
(* C10  Mesh topology is independent of encoding and internally consistent. *)
(* Universe: the lattice mesh family -- a Wd x Ht array of unit squares,   *)
(* each a quad, two triangles (either diagonal) or absent; nodes numbered  *)
(* in row-major order of the lattice points used, faces in row-major order *)
(* of their squares -- under every encoding (base, fill, transposition).   *)
(***************************************************************************)
EXTENDS Mesh, TLC

CONSTANTS Wd, Ht

VARIABLES sq, enc, tabs
vars == <<sq, enc, tabs>>

Squares == (0..(Ht - 1)) \X (0..(Wd - 1))             \* <<j, i>>
SqSeq == [k \in 1..(Wd * Ht) |-> <<(k - 1) \div Wd, (k - 1) % Wd>>]     \* row-major

\* lattice points of a square: ll, lr, ur, ul as <<i, j>>
LL(s) == <<s[2], s[1]>>
LR(s) == <<s[2] + 1, s[1]>>
UR(s) == <<s[2] + 1, s[1] + 1>>
UL(s) == <<s[2], s[1] + 1>>
FacePts(kind, s) ==
  CASE kind = "Q" -> <<<<LL(s), LR(s), UR(s), UL(s)>>>>
    [] kind = "A" -> <<<<LL(s), LR(s), UR(s)>>, <<LL(s), UR(s), UL(s)>>>>
    [] kind = "B" -> <<<<LL(s), LR(s), UL(s)>>, <<LR(s), UR(s), UL(s)>>>>
    [] kind = "N" -> <<>>

RECURSIVE FacesFrom(_, _)
FacesFrom(c, k) == IF k > Len(SqSeq) THEN <<>> ELSE FacePts(c[SqSeq[k]], SqSeq[k]) \o FacesFrom(c, k + 1)
FacePoints(c) == FacesFrom(c, 1)

UsedPts(c) == UNION {ToSet(FacePoints(c)[f]) : f \in 1..Len(FacePoints(c))}
Before(p, q) == p[2] < q[2] \/ (p[2] = q[2] /\ p[1] < q[1])
NodeIndex(c, p) == Cardinality({q \in UsedPts(c) : Before(q, p)})
MaxN(c) == IF \E s \in Squares : c[s] = "Q" THEN 4 ELSE 3

FN(c) == [f \in 1..Len(FacePoints(c)) |->
            Pad([k \in 1..Len(FacePoints(c)[f]) |-> NodeIndex(c, FacePoints(c)[f][k])], MaxN(c))]

Meshes == {c \in [Squares -> {"Q", "A", "B", "N"}] : \E s \in Squares : c[s] # "N"}
Encs == [base : {0, 1}, fill : {"intfill", "nan"}, tr : BOOLEAN]

\* the tables are computed once per mesh and kept in the state (TLC does not memoise operators)
TablesOf(c) ==
  LET f == FN(c) IN
  LET e == DeriveEN(f) IN
  LET g == DeriveFE(f, e) IN
  LET h == DeriveEF(f, g, Len(e)) IN
  [fn |-> f, en |-> e, fe |-> g, ef |-> h, ff |-> DeriveFF(f, h)]

Init == /\ sq \in Meshes /\ enc \in Encs
        /\ tabs = TablesOf(sq)
Next == UNCHANGED vars
Spec == Init /\ [][Next]_vars

fn == tabs.fn
en == tabs.en
fe == tabs.fe
ef == tabs.ef
ff == tabs.ff
First == enc = [base |-> 0, fill |-> "intfill", tr |-> FALSE]    \* mesh-level statements once per mesh

MeshIsValid == First => ValidMesh(fn)
DerivedEdgeNode == First => IsEdgeNodeFor(fn, en)
DerivedFaceEdge == First => FaceEdgesAreConsecutivePairs(fn, en, fe)
DerivedEdgeFace == First => EdgeFacesExactlyContaining(fn, en, ef)
DerivedFaceFace == First => FaceFaceSymmetricEdgeSharing(fn, ff)
\* every edge has one or two faces; interior edges exactly two
EdgeFaceCounts == First => \A e \in 1..Len(ef) : Len(Present(ef[e])) \in {1, 2}

RoundTrip(tbl) == SameRows(Normalise(Encode(tbl, enc.base, enc.fill, enc.tr), enc.base, enc.fill, enc.tr), tbl)
EncodingIndependent == RoundTrip(fn) /\ RoundTrip(en) /\ RoundTrip(fe) /\ RoundTrip(ef) /\ RoundTrip(ff)
=============================================================================
