SPECIFICATION Spec
CONSTANTS
  Shapes <- ThoroughShapes
  MaxBuffer = 3
  MeshN = 8
INVARIANT BlurIsGrow
INVARIANT SmearIsIncidence
INVARIANT Monotone
INVARIANT Exactness
INVARIANT RenumberOK
INVARIANT MeshRings
CHECK_DEADLOCK FALSE
