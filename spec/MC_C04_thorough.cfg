SPECIFICATION Spec
CHECK_DEADLOCK FALSE
INVARIANT LookupIsLeastHit
INVARIANT NoNearest
CONSTANT Big = TRUE
