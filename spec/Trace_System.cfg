SPECIFICATION TSpec
CONSTANTS
  BaseWorld <- TraceBase
  VarChoices <- TraceVarChoices
  PointLists <- TracePointLists
  MaskSizes = {1}
  MaxObjs = 100
  MaxMasks = 100
  MaxConvs = 100
  MaxFiles = 100
  MaxOff = 100
  Depth = 10000
INVARIANT EmitVerdict
CHECK_DEADLOCK FALSE
