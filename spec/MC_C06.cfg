SPECIFICATION Spec
INVARIANT Rect1D
INVARIANT Derived1D
INVARIANT Corners2DStored
INVARIANT Corners2DDerived
INVARIANT MissingCoordinatesNoPolygon
INVARIANT OwnNodes
INVARIANT ListedOrder
INVARIANT OnlySimpleKept
INVARIANT FastPathsAgree
INVARIANT ExtentIsUnion
CHECK_DEADLOCK FALSE
