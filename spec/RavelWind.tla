----------------------------- MODULE RavelWind -----------------------------
(***************************************************************************)
(* The ravel / wind actions of a convention (DimensionConvention.ravel,    *)
(* .wind, .get_grid_kind; utils.ravel_dimensions, utils.wind_dimension).   *)
(* Dimension names are strings.  A grid description G is a record          *)
(*    [kinds |-> Seq(kind), dims |-> [kind -> Seq(name)],                  *)
(*     shape |-> [kind -> Seq(Nat)]]                                       *)
(* with kinds in the order the convention enumerates them.                 *)
(***************************************************************************)
EXTENDS Arrays, TLC

\* get_grid_kind: the first kind whose dimensions are all dimensions of A
KindsOf(G, A) == SelectSeq(G.kinds, LAMBDA k : Range1(G.dims[k]) \subseteq Range1(A.dims))
HasGrid(G, A) == KindsOf(G, A) # <<>>
GridKindOf(G, A) == Head(KindsOf(G, A))

NoName == "<default>"

\* convention.ravel(A, linear_dimension=name)
SpecRavel(G, A, name) ==
  IF ~HasGrid(G, A) THEN [err |-> "rejected"]
  ELSE LET k == GridKindOf(G, A)
           M == MoveToEnd(A, G.dims[k])
           keep == Len(M.dims) - Len(G.dims[k])
           lin == IF name = NoName
                  THEN FindUnusedStr("index", Range1(M.dims)) ELSE name
       IN [ok |-> [dims  |-> SubSeq(M.dims, 1, keep) \o <<lin>>,
                   shape |-> SubSeq(M.shape, 1, keep) \o <<ProdSeq(G.shape[k])>>,
                   data  |-> M.data,
                   dtype |-> A.dtype]]

\* convention.wind(A, grid_kind=k, axis / linear_dimension / default last)
\* pos is the 1-based position of the linear dimension in A.dims
SpecWind(G, A, k, pos) ==
  LET R == Wind(A, A.dims[pos], G.dims[k], G.shape[k])
  IN [ok |-> [dims |-> R.dims, shape |-> R.shape, data |-> R.data, dtype |-> A.dtype]]

\* ------------------------------------------------------------ addressing
\* The value of array A for extra-index f (function other-dim -> component)
\* and cell n of grid kind k, whether A is wound (has the grid dims) or
\* flattened (has the linear dimension lin).
AddrVal(G, A, k, lin, f, n) ==
  IF lin \in Range1(A.dims)
  THEN AtNamed(A, [d \in Range1(A.dims) |-> IF d = lin THEN n ELSE f[d]])
  ELSE LET g == UnravelRM(G.shape[k], n)
       IN AtNamed(A, [d \in Range1(A.dims) |->
                        IF d \in Range1(G.dims[k]) THEN g[PosOf(G.dims[k], d)] ELSE f[d]])

\* the dimensions of A that are neither grid dimensions of k nor lin, in order
OtherDims(G, A, k, lin) ==
  SelectSeq(A.dims, LAMBDA d : d \notin Range1(G.dims[k]) /\ d # lin)

OtherSizes(G, A, k, lin) ==
  [d \in Range1(OtherDims(G, A, k, lin)) |-> A.shape[PosOf(A.dims, d)]]

\* all extra-indexes of A
ExtraIndexes(G, A, k, lin) ==
  LET od == Range1(OtherDims(G, A, k, lin))
      sz == OtherSizes(G, A, k, lin)
  IN {f \in [od -> 0..(Max({sz[d] : d \in od} \cup {1}) - 1)] : \A d \in od : f[d] < sz[d]}

\* "Values are only moved, never altered": B holds exactly the values of A,
\* each still addressed by the same extra-index and the same cell.
SameAddressing(G, A, B, k, linA, linB) ==
  /\ OtherDims(G, A, k, linA) = OtherDims(G, B, k, linB)      \* other dims and their order untouched
  /\ Len(A.data) = Len(B.data)
  /\ \A f \in ExtraIndexes(G, A, k, linA) : \A n \in 0..(ProdSeq(G.shape[k]) - 1) :
        AddrVal(G, A, k, linA, f, n) = AddrVal(G, B, k, linB, f, n)

\* after ravel: the linear dimension is last
RavelLayout(G, A, R, k, lin) ==
  /\ R.dims = OtherDims(G, A, k, "") \o <<lin>>
  /\ R.shape[Len(R.shape)] = ProdSeq(G.shape[k])

\* after wind: the grid dimensions stand, in the convention's order, where the
\* linear dimension stood
WindLayout(G, A, Wd, k, pos) ==
  /\ SubSeq(Wd.dims, pos, pos + Len(G.dims[k]) - 1) = G.dims[k]
  /\ SubSeq(Wd.shape, pos, pos + Len(G.dims[k]) - 1) = G.shape[k]
  /\ SubSeq(Wd.dims, 1, pos - 1) = SubSeq(A.dims, 1, pos - 1)
  /\ SubSeq(Wd.dims, pos + Len(G.dims[k]), Len(Wd.dims)) = SubSeq(A.dims, pos + 1, Len(A.dims))

=============================================================================
