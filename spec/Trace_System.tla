----------------------------- MODULE Trace_System -----------------------------
(***************************************************************************)
(* Trace validation of whole sessions against EmsSystem: every TLC-emitted *)
(* behaviour is executed on real datasets; after each action the           *)
(* implementation's view of the dataset the action produced or touched     *)
(* (detected convention, polygon per position, every face variable,        *)
(* variable names) and the convention bound to EVERY live dataset are      *)
(* compared with the specification's next state.                           *)
(***************************************************************************)
EXTENDS EmsSystem, Triangulate, IOUtils, TLCExt

TLog == ndJsonDeserialize(IOEnv.TRACE_FILE)
VARIABLES t, l, fails, seen
tvars == <<t, l, fails, seen, B, objs, masks, files, convs, out, hist>>
Rec == TLog[t]
Ev  == TLog[t].events[l]
TraceBase == TLog[1].w
TraceVarChoices == {{}}
TracePointLists == {}

VarOf(nm) == B.vars[VarByName(B, nm)]
ObsVarS(vs, nm) == vs[CHOOSE k \in 1..Len(vs) : vs[k].name = nm]
HasVarS(vs, nm) == \E k \in 1..Len(vs) : vs[k].name = nm

\* the observed array of face variable `var` agrees with view v at every position and extra index
VarAgrees(v, var, o) ==
  LET npos == Len(v.cells)
      gshape == IF IsGrid THEN <<WinH(v.win), WinW(v.win)>> ELSE <<npos>>
      expshape == [p \in 1..Len(var.dims) |->
                     IF IsGridPos(var, p) THEN gshape[CHOOSE g \in 1..Len(var.gridpos) : var.gridpos[g] = p] ELSE var.shape[p]]
  IN /\ o.dims = var.dims /\ o.shape = expshape /\ Len(o.data) = ProdSeq(expshape)
     /\ \A q \in 1..Len(o.data) :
          LET idx == UnravelRM(expshape, q - 1)
              g == [k \in 1..Len(var.gridpos) |-> idx[var.gridpos[k]]]
              pos == RavelRM(gshape, g) + 1
              ex == [m \in 1..Len(OtherPos(var)) |-> idx[OtherPos(var)[m]]]
          IN o.data[q] = ValueOf(v, var, ex, pos)

Explicit == IsUGrid(B) \/ IsArakawa(B) \/ HasField(B.geom, "xb")

Names == {"Completed", "SameConvention", "CellsAreOriginalCells", "SelectedKeepPolygon", "ValuesAreOriginal", "VariablesPresent",
          "BindingState", "AnswerMatches", "QueryAnswer", "CellValues", "ExtractAnswer", "TrianglesPartitionView", "ExportMatchesView"}

\* Triangulate: the triangles reported for position pos (0-based cell index pos) as coordinate triples
TriNV(o) == Len(o.vertices)
TriIdxOK(o) == /\ Len(o.cells) = Len(o.triangles)
               /\ \A k \in 1..Len(o.triangles) : \A m \in 1..3 : o.triangles[k][m] >= 0 /\ o.triangles[k][m] < TriNV(o)
TriCoordsOf(o, k) == [m \in 1..3 |-> <<o.vertices[o.triangles[k][m] + 1][1], o.vertices[o.triangles[k][m] + 1][2]>>]
TrisAt(o, p) == LET ks == SelectSeq([k \in 1..Len(o.triangles) |-> k], LAMBDA k : o.cells[k] = p)
                IN [j \in 1..Len(ks) |-> TriCoordsOf(o, ks[j])]

\* Extract: the requests that survive the policy (1-based positions in the request list), and the cell each row shows
ExtRows(vq, e) == LET all == [k \in 1..Len(e.cells) |-> k]
                  IN IF e.policy = "drop" THEN SelectSeq(all, LAMBDA k : k \notin Misses(vq, e.cells)) ELSE all
ExtRefused(vq, e) == e.policy = "error" /\ Misses(vq, e.cells) # {}

\* evaluated in the post-state (primed variables) of the specification action
Holds(name, e) ==
  LET s == e.obs.subject                \* the dataset the action produced or touched
      v == objs'[s]
      ob == e.obs.view
  IN
  CASE name = "Completed" -> e.obs.ok \/ (e.a = "Extract" /\ ExtRefused(objs[e.obj], e))
    [] name = "SameConvention" -> e.obs.ok => ob.conv = B.convclass
    [] name = "CellsAreOriginalCells" ->
         (e.obs.ok /\ "ok" \in DOMAIN ob.polys) =>
            /\ Len(ob.polys.ok) = Len(v.cells)
            /\ \A pos \in 1..Len(v.cells) :
                 Degenerate(RawPoly(B, v.cells[pos])) \/ ob.polys.ok[pos] = <<>> \/ SameRing(ob.polys.ok[pos], PolyOf(v, pos))
    [] name = "SelectedKeepPolygon" ->
         (e.obs.ok /\ Explicit) =>
            /\ "ok" \in DOMAIN ob.polys
            /\ \A pos \in 1..Len(v.cells) :
                 (v.cells[pos] \in v.sel /\ MaskAt(B, v.cells[pos]) /\ Len(ob.polys.ok) = Len(v.cells)) => ob.polys.ok[pos] # <<>>
    [] name = "ValuesAreOriginal" ->
         e.obs.ok => \A nm \in v.vars : HasVarS(ob.vars, nm) /\ VarAgrees(v, VarOf(nm), ObsVarS(ob.vars, nm))
    [] name = "VariablesPresent" ->
         e.obs.ok => {ob.names[k] : k \in 1..Len(ob.names)} \cap AllVars = v.vars
    [] name = "BindingState" ->
         /\ Len(e.obs.bound) = Len(objs')
         /\ \A o \in 1..Len(objs') : e.obs.bound[o] = objs'[o].bound
    [] name = "QueryAnswer" ->
         \* a point strictly inside original cell n: found at n's position where the view still has the cell selected, not
         \* found where the view does not have the cell (geometry given explicitly), either where it is cropped in but blanked
         (e.a = "Query" /\ e.obs.ok) =>
            LET vq == objs[e.obj]  p == PosOfCell(vq, e.cell) IN
            /\ (e.cell \in vq.sel /\ Explicit) => e.obs.answer = p
            /\ (p = -1 /\ Explicit) => e.obs.answer = -1
            /\ e.obs.answer \in {p, -1}
    [] name = "CellValues" ->
         (e.a = "SelectCell" /\ e.obs.ok) =>
            LET vq == objs[e.obj] IN
            \A nm \in vq.vars :
               /\ HasVarS(e.obs.cell, nm)
               /\ LET var == VarOf(nm)  o == ObsVarS(e.obs.cell, nm)
                      oshape == [m \in 1..Len(OtherPos(var)) |-> var.shape[OtherPos(var)[m]]]
                  IN /\ o.shape = oshape /\ Len(o.data) = ProdSeq(oshape)
                     /\ \A q \in 1..Len(o.data) : o.data[q] = ValueOf(vq, var, UnravelRM(oshape, q - 1), e.pos)
    [] name = "ExtractAnswer" ->
         \* 'error' names exactly the requests that miss; 'drop' keeps exactly the hits, labelled with their positions in
         \* the request list; 'fill' keeps every row, the misses holding missing data; the rows show the values this view
         \* shows for those cells
         (e.a = "Extract") =>
            LET vq == objs[e.obj]  rows == ExtRows(vq, e)  miss == Misses(vq, e.cells)
                shown == [r \in 1..Len(rows) |-> IF rows[r] \in miss THEN -1 ELSE e.cells[rows[r]]]
            IN IF ExtRefused(vq, e)
               THEN /\ ~e.obs.ok /\ e.obs.error = "NonIntersectingPoints"
                    /\ Len(e.obs.indices) = Cardinality(miss) /\ ToSet(e.obs.indices) = {k - 1 : k \in miss}
               ELSE e.obs.ok =>
                    /\ e.obs.labels = [r \in 1..Len(rows) |-> rows[r] - 1]
                    /\ \A nm \in vq.vars :
                          /\ HasVarS(e.obs.rows, nm)
                          /\ SelectManyOKOff(B, VarOf(nm), shown, "point", ObsVarS(e.obs.rows, nm), vq.off)
    [] name = "TrianglesPartitionView" ->
         \* every triangle belongs to a position of THIS view; the triangles of a position tile exactly the original polygon
         \* of the cell at that position; a cell whose values the view still shows is triangulated (geometry given explicitly)
         (e.a = "Triangulate" /\ e.obs.ok) =>
            LET vq == objs[e.obj]  o == e.obs.tri IN
            /\ TriIdxOK(o)
            /\ \A k \in 1..Len(o.cells) : o.cells[k] >= 0 /\ o.cells[k] < Len(vq.cells)
            /\ TriIdxOK(o) =>
                 \A pos \in 1..Len(vq.cells) :
                    LET n == vq.cells[pos]  ts == TrisAt(o, pos - 1) IN
                    \/ Degenerate(RawPoly(B, n))
                    \/ (ts = <<>> /\ ~(n \in vq.sel /\ MaskAt(B, n) /\ Explicit))
                    \/ (MaskAt(B, n) /\ IsPartition(DedupRing(PolyAt(B, n)), ts))
    [] name = "ExportMatchesView" ->
         \* one feature per cell of THIS view that has a polygon, in the view's own order; the feature's linear index is the
         \* position in the view and its ring is the original polygon of the cell at that position; no cell whose values the
         \* view still shows is left out (geometry given explicitly)
         (e.a = "Export" /\ e.obs.ok) =>
            LET vq == objs[e.obj]  fs == e.obs.features IN
            /\ \A k \in 1..Len(fs) :
                 /\ fs[k].linear >= 0 /\ fs[k].linear < Len(vq.cells)
                 /\ k > 1 => fs[k - 1].linear < fs[k].linear
                 /\ (fs[k].linear >= 0 /\ fs[k].linear < Len(vq.cells)) =>
                       (MaskAt(B, vq.cells[fs[k].linear + 1]) /\ SameRing(fs[k].coords, PolyOf(vq, fs[k].linear + 1)))
            /\ \A pos \in 1..Len(vq.cells) :
                 (vq.cells[pos] \in vq.sel /\ MaskAt(B, vq.cells[pos]) /\ Explicit /\ ~Degenerate(RawPoly(B, vq.cells[pos]))) =>
                    \E k \in 1..Len(fs) : fs[k].linear = pos - 1
    [] name = "AnswerMatches" ->
         /\ (e.a = "Access" => e.obs.conv = out'.conv)
         /\ (e.a \in {"Copy", "ApplyMask", "SelectVariables", "Open"} => e.obs.subject = out'.new)

Failing(e) == {name \in Names : ~Holds(name, e)}
SeenOf(e) == {e.a, B.conv}
  \cup (IF Len(objs') > 1 /\ objs'[e.obs.subject].cells # BaseViewOf(B).cells THEN {"derived-view"} ELSE {})
  \cup (IF e.a = "ApplyMask" /\ objs[e.obj].cells # BaseViewOf(B).cells THEN {"clip-of-clip"} ELSE {})
  \cup (IF e.a = "ApplyMask" /\ objs[e.obj].off # 0 THEN {"clip-after-mutation"} ELSE {})
  \cup (IF e.a = "Open" /\ files[e.file].view.cells # BaseViewOf(B).cells THEN {"reopen-clipped"} ELSE {})
  \cup (IF e.a = "LoadMask" THEN {"mask-reloaded"} ELSE {})
  \cup (IF e.a = "Query" /\ PosOfCell(objs[e.obj], e.cell) = -1 THEN {"query-clipped-away"} ELSE {})
  \cup (IF e.a = "Query" /\ PosOfCell(objs[e.obj], e.cell) >= 0 /\ objs[e.obj].cells # BaseViewOf(B).cells THEN {"query-on-derived"} ELSE {})
  \cup (IF e.a = "SelectCell" /\ objs[e.obj].cells # BaseViewOf(B).cells THEN {"cell-of-derived"} ELSE {})
  \cup (IF e.a = "ApplyMask" /\ e.mask <= Len(masks) /\ e.obj # 1 THEN {"mask-on-other-dataset"} ELSE {})
  \cup (IF e.a = "Triangulate" /\ objs[e.obj].cells # BaseViewOf(B).cells THEN {"triangulate-derived"} ELSE {})
  \cup (IF e.a = "Export" /\ objs[e.obj].cells # BaseViewOf(B).cells THEN {"export-derived"} ELSE {})
  \cup (IF e.a = "Extract" THEN {"extract-" \o e.policy} ELSE {})
  \cup (IF e.a = "Extract" /\ Misses(objs[e.obj], e.cells) # {} THEN {"extract-with-miss"} ELSE {})
  \cup (IF e.a = "Extract" /\ objs[e.obj].cells # BaseViewOf(B).cells THEN {"extract-on-derived"} ELSE {})
  \cup (IF e.a = "Extract" /\ objs[e.obj].off # 0 THEN {"extract-after-mutation"} ELSE {})

Done == t > Len(TLog)
InitState(b) == /\ B = b /\ objs = <<BaseViewOf(b)>> /\ masks = <<>> /\ files = <<>> /\ convs = <<>>
                /\ out = [a |-> "init"] /\ hist = <<>>
TInit == t = 1 /\ l = 1 /\ fails = {} /\ seen = {} /\ InitState(TLog[1].w)

Act(e) ==
  CASE e.a = "Access" -> Access(e.obj)
    [] e.a = "Copy" -> Copy(e.obj)
    [] e.a = "MakeMask" -> MakeMask(e.obj, ToSet(e.F))
    [] e.a = "SaveMask" -> SaveMask(e.mask)
    [] e.a = "LoadMask" -> LoadMask(e.file)
    [] e.a = "ApplyMask" -> ApplyMask(e.obj, e.mask)
    [] e.a = "SelectVariables" -> SelectVariables(e.obj, ToSet(e.names))
    [] e.a = "Mutate" -> Mutate(e.obj, e.k)
    [] e.a = "Save" -> Save(e.obj)
    [] e.a = "Open" -> Open(e.file)
    [] e.a = "Query" -> Query(e.obj, e.cell)
    [] e.a = "SelectCell" -> SelectCell(e.obj, e.pos)
    [] e.a = "Extract" -> Extract(e.obj, e.cells, e.policy)
    [] e.a = "Triangulate" -> Triangulate(e.obj)
    [] e.a = "Export" -> Export(e.obj)

Step ==
  /\ ~Done /\ UNCHANGED B
  /\ Act(Ev)
  /\ fails' = fails \cup {<<Rec.tid, l, name>> : name \in Failing(Ev)}
  /\ seen' = seen \cup SeenOf(Ev)
  /\ IF l < Len(Rec.events) THEN l' = l + 1 /\ t' = t ELSE l' = 1 /\ t' = t + 1

Fresh == l = 1 /\ objs = <<BaseViewOf(Rec.w)>> /\ B = Rec.w /\ masks = <<>> /\ files = <<>> /\ convs = <<>> /\ hist = <<>>
Reset == /\ ~Done /\ l = 1
         /\ B' = Rec.w /\ objs' = <<BaseViewOf(Rec.w)>> /\ masks' = <<>> /\ files' = <<>> /\ convs' = <<>>
         /\ out' = [a |-> "init"] /\ hist' = <<>>
         /\ UNCHANGED <<t, l, fails, seen>>
TNext == IF ~Done /\ l = 1 /\ ~Fresh THEN Reset ELSE Step
TSpec == TInit /\ [][TNext]_tvars

Verdict == [records |-> Len(TLog), fails |-> SetToSeq(fails), seen |-> SetToSeq(seen), missing |-> <<>>]
EmitVerdict == Done => JsonSerialize(IOEnv.VERDICT_FILE, Verdict)
=============================================================================
