------------------------------- MODULE Gen_C01 -------------------------------
(* Case emission for C01: the structured worlds of MC_C01's universe.        *)
EXTENDS Conventions, TLC, Json, IOUtils

GenMax == atoi(IOEnv.GEN_MAXDIM)
Structured == {"cf1d", "cf2d", "shoc_simple", "shoc_standard", "arakawa"}
GenWorlds ==
  {[conv |-> c, ny |-> a, nx |-> b, nface |-> 0, nnode |-> 0, nedge |-> -1] :
      c \in Structured, a \in 1..GenMax, b \in 1..GenMax}

ASSUME ndJsonSerialize(IOEnv.CASES_FILE, SetToSeq(GenWorlds))
=============================================================================
