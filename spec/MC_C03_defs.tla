----------------------------- MODULE MC_C03_defs -----------------------------
EXTENDS MC_C03

GCF(ny, nx) == [kinds |-> <<"face">>, dims |-> [face |-> <<"Y", "X">>], shape |-> [face |-> <<ny, nx>>]]
GAr(ny, nx) == [kinds |-> <<"face", "left", "back", "node">>,
                dims  |-> [face |-> <<"jc", "ic">>, left |-> <<"jl", "il">>, back |-> <<"jb", "ib">>, node |-> <<"jn", "in">>],
                shape |-> [face |-> <<ny, nx>>, left |-> <<ny, nx + 1>>, back |-> <<ny + 1, nx>>, node |-> <<ny + 1, nx + 1>>]]
GUg(f, e, n) == [kinds |-> <<"node", "face", "edge">>,
                 dims  |-> [face |-> <<"nf">>, edge |-> <<"ne">>, node |-> <<"nn">>],
                 shape |-> [face |-> <<f>>, edge |-> <<e>>, node |-> <<n>>]]

QuickGrids == {GCF(2, 3), GCF(1, 2), GAr(1, 2), GUg(2, 5, 4)}
ThoroughGrids == {GCF(2, 3), GCF(3, 1), GCF(1, 2), GAr(1, 2), GAr(2, 1), GUg(2, 5, 4), GUg(3, 3, 3)}

T == <<"t", 2>>
K == <<"k", 3>>
I == <<"index", 2>>
I0 == <<"index_0", 2>>
QuickExtras == {{}, {T}, {T, K}, {I}, {I, T}}
ThoroughExtras == {{}, {T}, {K}, {T, K}, {I}, {I, T}, {I, I0}, {I, T, K}, {T, K, I0}}
=============================================================================
