------------------------------- MODULE MC_C06 -------------------------------
(***************************************************************************)
(* C06  Cell polygons and dataset extent are faithful to the coordinates.  *)
(*                                                                         *)
(* The operational constructors of Geometry.tla (which mirror the code's   *)
(* mechanisms and to which the implementation is bound in Trace_C06) are   *)
(* checked against the declarative statements of the property for every    *)
(* world of a bounded universe of coordinate arrays.                       *)
(***************************************************************************)
EXTENDS Geometry, TLC

VARIABLES w, probe
vars == <<w, probe>>

World(c, a, b, g) == [conv |-> c, ny |-> a, nx |-> b, nface |-> 0, nnode |-> 0, nedge |-> -1,
                      geom |-> g, mesh |-> [none |-> 0]]

\* ---------------------------------------------------------- 1-D universe
Vals1 == {0, 12, 36, 60}
Mono(s) == (\A k \in 1..(Len(s) - 1) : s[k] < s[k + 1]) \/ (\A k \in 1..(Len(s) - 1) : s[k] > s[k + 1])
Axes == {s \in UNION {[1..n -> Vals1] : n \in 2..3} : Mono(s)}
YAxes == {<<-24, 24>>, <<48, 0>>, <<0, 12, 36>>}
Dir(s) == IF s[1] < s[2] THEN 1 ELSE -1
Stored1(s) == [k \in 1..Len(s) |-> <<s[k] - 6 * Dir(s), s[k] + 6 * Dir(s)>>]
Worlds1D ==
  {World("cf1d", Len(y), Len(x), [xc |-> x, yc |-> y]) : x \in Axes, y \in YAxes}
  \cup {World("cf1d", Len(y), Len(x), [xc |-> x, yc |-> y, xb |-> Stored1(x), yb |-> Stored1(y)]) : x \in Axes, y \in YAxes}

\* ---------------------------------------------------------- 2-D universe
\* skewed lattice: node (i, j) -> (24(3i + j), 24(2j - i)); centres are the means of four nodes
NodeX(i, j) == 24 * (3 * i + j)
NodeY(i, j) == 24 * (2 * j - i)
CenX(i, j) == (NodeX(i, j) + NodeX(i + 1, j) + NodeX(i + 1, j + 1) + NodeX(i, j + 1)) \div 4
CenY(i, j) == (NodeY(i, j) + NodeY(i + 1, j) + NodeY(i + 1, j + 1) + NodeY(i, j + 1)) \div 4
Cells(ny, nx) == (0..(ny - 1)) \X (0..(nx - 1))
HoleSets(ny, nx) == {H \in SUBSET Cells(ny, nx) : Cardinality(H) <= 2}
Cen2(ny, nx, H, F(_, _)) == [j \in 1..ny |-> [i \in 1..nx |-> IF <<j - 1, i - 1>> \in H THEN NANQ ELSE F(i - 1, j - 1)]]
Cor2(ny, nx, H, F(_, _)) ==
  [j \in 1..ny |-> [i \in 1..nx |->
      IF <<j - 1, i - 1>> \in H THEN <<NANQ, NANQ, NANQ, NANQ>>
      ELSE <<F(i - 1, j - 1), F(i, j - 1), F(i, j), F(i - 1, j)>>]]
Shapes2 == {<<2, 2>>, <<2, 3>>, <<3, 3>>}
Worlds2D ==
  UNION {UNION {
     {World("cf2d", s[1], s[2], [xc |-> Cen2(s[1], s[2], H, CenX), yc |-> Cen2(s[1], s[2], H, CenY)]),
      World("shoc_simple", s[1], s[2], [xc |-> Cen2(s[1], s[2], H, CenX), yc |-> Cen2(s[1], s[2], H, CenY),
                                 xb |-> Cor2(s[1], s[2], H, NodeX), yb |-> Cor2(s[1], s[2], H, NodeY)])}
     : H \in HoleSets(s[1], s[2])} : s \in Shapes2}

\* a stored-bounds cell with two corners swapped (self-intersecting ring)
BowTie ==
  LET g == [xc |-> Cen2(2, 2, {}, CenX), yc |-> Cen2(2, 2, {}, CenY),
            xb |-> [Cor2(2, 2, {}, NodeX) EXCEPT ![1][2] = <<@[1], @[3], @[2], @[4]>>],
            yb |-> [Cor2(2, 2, {}, NodeY) EXCEPT ![1][2] = <<@[1], @[3], @[2], @[4]>>]]
  IN World("cf2d", 2, 2, g)

\* ---------------------------------------------------------- node grids
NodeSets(ny, nx) == {H \in SUBSET ((0..ny) \X (0..nx)) : Cardinality(H) <= 2}
WorldsC ==
  UNION {{World("shoc_standard", s[1], s[2],
            [xg |-> [j \in 1..(s[1] + 1) |-> [i \in 1..(s[2] + 1) |-> IF <<j - 1, i - 1>> \in H THEN NANQ ELSE NodeX(i - 1, j - 1)]],
             yg |-> [j \in 1..(s[1] + 1) |-> [i \in 1..(s[2] + 1) |-> IF <<j - 1, i - 1>> \in H THEN NANQ ELSE NodeY(i - 1, j - 1)]],
             xc |-> Cen2(s[1], s[2], {}, CenX), yc |-> Cen2(s[1], s[2], {}, CenY)])
          : H \in NodeSets(s[1], s[2])} : s \in {<<1, 2>>, <<2, 2>>}}

\* ---------------------------------------------------------- meshes
MeshWorld(nodes, faces) ==
  [conv |-> "ugrid", ny |-> 0, nx |-> 0, nface |-> Len(faces), nnode |-> Len(nodes), nedge |-> -1,
   geom |-> [none |-> 0], mesh |-> [nodes |-> nodes, faces |-> faces]]
P(i, j) == <<NodeX(i, j), NodeY(i, j)>>
WorldsU == {
  MeshWorld(<<P(0,0), P(1,0), P(0,1), P(1,1)>>, <<<<0, 1, 3>>, <<0, 3, 2>>>>),
  MeshWorld(<<P(0,0), P(1,0), P(2,0), P(0,1), P(1,1), P(2,1)>>, <<<<0, 1, 4, 3>>, <<1, 2, 5>>, <<1, 5, 4>>>>),
  MeshWorld(<<P(0,0), P(1,0), P(2,0), P(0,1), P(1,1), P(2,1)>>, <<<<3, 4, 1, 0>>, <<0, 1, 2, 5, 4, 3>>>>),
  MeshWorld(<<P(0,0), P(1,0), P(0,1), P(1,1)>>, <<<<0, 3, 1, 2>>, <<0, 1, 3>>>>)   \* first face is a bow-tie
}

Worlds == Worlds1D \cup Worlds2D \cup {BowTie} \cup WorldsC \cup WorldsU

Init == w \in Worlds /\ probe = <<0, 0>>
\* probing the extent with lattice points
ProbePts(ww) == LET b == ExtentBBox(ww)
                IN {<<x, y>> : x \in {b[1] - 6, b[1], (b[1] + b[3]) \div 2, b[3], b[3] + 6},
                               y \in {b[2] - 6, b[2], (b[2] + b[4]) \div 2, b[4], b[4] + 6}}
Next == probe = <<0, 0>> /\ ValidCells(w) # {} /\ probe' \in ProbePts(w) /\ UNCHANGED w
Spec == Init /\ [][Next]_vars

Faces == 0..(FaceCount(w) - 1)
JI(n) == UnravelRM(<<w.ny, w.nx>>, n)
VertexSet(Pg) == {Pg[k] : k \in 1..Len(Pg)}
Fresh == probe = <<0, 0>>

\* ------------------------------------------------------------ declarative
\* CF 1-D: the rectangle spanned by the (given or midpoint-derived) bounds
Rect1D ==
  (Fresh /\ w.conv = "cf1d") => \A n \in Faces :
     LET xb == Bounds1(w.geom, "x")[JI(n)[2] + 1]  yb == Bounds1(w.geom, "y")[JI(n)[1] + 1]
     IN /\ VertexSet(PolyAt(w, n)) = {xb[1], xb[2]} \X {yb[1], yb[2]}
        /\ IsSimple(PolyAt(w, n))

\* derived 1-D bounds: cells tile the axis and every centre lies strictly inside its own cell
Derived1D ==
  (Fresh /\ w.conv = "cf1d" /\ ~HasField(w.geom, "xb")) =>
     LET b == Bounds1(w.geom, "x")  c == w.geom.xc
     IN /\ \A k \in 1..(Len(c) - 1) : b[k][2] = b[k + 1][1]
        /\ \A k \in 1..Len(c) : MinI(b[k][1], b[k][2]) < c[k] /\ c[k] < MaxI(b[k][1], b[k][2])

\* CF 2-D / SHOC simple with stored bounds: the four bounds corners, in order
Corners2DStored ==
  (Fresh /\ w.conv \in {"cf2d", "shoc_simple"} /\ HasField(w.geom, "xb")) => \A n \in Faces :
     LET cx == w.geom.xb[JI(n)[1] + 1][JI(n)[2] + 1]  cy == w.geom.yb[JI(n)[1] + 1][JI(n)[2] + 1]
     IN RawPoly(w, n) = (IF HasNaN4(cx) \/ HasNaN4(cy) THEN <<>> ELSE [k \in 1..4 |-> <<cx[k], cy[k]>>])

\* CF 2-D without bounds: a cell surrounded by eight present neighbours gets
\* the means of the four centres around each corner
Interior(n) == \A dj, di \in {-1, 0, 1} :
     InGrid(w.geom.xc, JI(n)[1] + dj, JI(n)[2] + di) /\ ~IsNaNAt(w.geom.xc, JI(n)[1] + dj, JI(n)[2] + di)
Corners2DDerived ==
  (Fresh /\ w.conv \in {"cf2d", "shoc_simple"} /\ ~HasField(w.geom, "xb")) => \A n \in Faces :
     Interior(n) =>
        LET j == JI(n)[1]  i == JI(n)[2]
            M(c, a, b) == (c[a][b] + c[a][b + 1] + c[a + 1][b] + c[a + 1][b + 1]) \div 4   \* 1-based rows a, a+1
        IN RawPoly(w, n) = <<<<M(w.geom.xc, j, i), M(w.geom.yc, j, i)>>, <<M(w.geom.xc, j, i + 1), M(w.geom.yc, j, i + 1)>>,
                             <<M(w.geom.xc, j + 1, i + 1), M(w.geom.yc, j + 1, i + 1)>>, <<M(w.geom.xc, j + 1, i), M(w.geom.yc, j + 1, i)>>>>

\* a cell with missing coordinates has no polygon and the mask says so
MissingCoordinatesNoPolygon ==
  (Fresh /\ w.conv \in {"cf2d", "shoc_simple"}) => \A n \in Faces :
     (w.geom.xc[JI(n)[1] + 1][JI(n)[2] + 1] = NANQ \/ w.geom.yc[JI(n)[1] + 1][JI(n)[2] + 1] = NANQ)
        => (PolyAt(w, n) = <<>> /\ ~MaskAt(w, n))

\* Arakawa C: the cell's own four surrounding nodes; a missing node removes the cell
OwnNodes ==
  (Fresh /\ IsArakawa(w)) => \A n \in Faces :
     LET j == JI(n)[1]  i == JI(n)[2]
         N(a, b) == <<w.geom.xg[a + 1][b + 1], w.geom.yg[a + 1][b + 1]>>
         four == {N(j, i), N(j, i + 1), N(j + 1, i), N(j + 1, i + 1)}
     IN IF \E p \in four : p[1] = NANQ \/ p[2] = NANQ THEN PolyAt(w, n) = <<>>
        ELSE VertexSet(PolyAt(w, n)) = four /\ IsSimple(PolyAt(w, n))

\* UGRID: the face's nodes in listed order
ListedOrder ==
  (Fresh /\ IsUGrid(w)) => \A n \in Faces :
     RawPoly(w, n) = [k \in 1..Len(w.mesh.faces[n + 1]) |-> w.mesh.nodes[w.mesh.faces[n + 1][k] + 1]]

\* self-intersecting cells are dropped, everything kept is a simple ring
OnlySimpleKept ==
  Fresh => \A n \in Faces : (MaskAt(w, n) => IsSimple(DedupRing(PolyAt(w, n)))) /\ (Invalid(w, n) => ~MaskAt(w, n))

\* the fast paths for the extent (CFGrid.bounds, UGrid.bounds) give the bounding box of the polygons
FastBounds(ww) ==
  IF IsUGrid(ww)
  THEN LET xs == {ww.mesh.nodes[k][1] : k \in 1..Len(ww.mesh.nodes)}  ys == {ww.mesh.nodes[k][2] : k \in 1..Len(ww.mesh.nodes)}
       IN <<SetMin(xs), SetMin(ys), SetMax(xs), SetMax(ys)>>
  ELSE LET cells == {n \in 0..(FaceCount(ww) - 1) : RawPoly(ww, n) # <<>>}
           xs == UNION {{RawPoly(ww, n)[k][1] : k \in 1..4} : n \in cells}
           ys == UNION {{RawPoly(ww, n)[k][2] : k \in 1..4} : n \in cells}
       IN <<SetMin(xs), SetMin(ys), SetMax(xs), SetMax(ys)>>
FastPathsAgree == (Fresh /\ ~IsArakawa(w) /\ ValidCells(w) # {} /\ InvalidCells(w) = {}) => FastBounds(w) = ExtentBBox(w)

\* membership in the extent is membership in some cell, and nothing outside the box is in it
ExtentIsUnion ==
  (~Fresh /\ ValidCells(w) # {}) =>
     LET b == ExtentBBox(w)
     IN InExtent(w, probe) => (b[1] <= probe[1] /\ probe[1] <= b[3] /\ b[2] <= probe[2] /\ probe[2] <= b[4])
=============================================================================
