------------------------------ MODULE Trace_C20 ------------------------------
(***************************************************************************)
(* Trace validation for C20: (a) every generated argument string through   *)
(* bounds_argument / geometry_argument, judged by the grammar of Cli.tla;  *)
(* (b) GeoJSON strings and files; (c) emsarray.cli.main run in             *)
(* subprocesses, its output file projected and compared with the           *)
(* projection of the corresponding library call on the same inputs.        *)
(***************************************************************************)
EXTENDS Cli, TLC, Json, IOUtils, TLCExt, SequencesExt

Log == ndJsonDeserialize(IOEnv.TRACE_FILE)
VARIABLES t, l, fails, seen
tvars == <<t, l, fails, seen>>
Rec == Log[t]
Ev  == Log[t].events[l]
Ok(e) == "ok" \in DOMAIN e.obs

BoxCorners(v) == {<<v[1], v[2]>>, <<v[3], v[2]>>, <<v[3], v[4]>>, <<v[1], v[4]>>}

Names == {"BoundsAccepted", "BoundsValueExact", "NonBoundsRejected", "GeoJsonExact", "BadGeometryRefused",
          "CliEqualsLibrary", "CliFailsWhenLibraryFails", "CliRefusesBadRequest", "NoPartialOutput", "BeyondTheGlobeRefused"}

Holds(name, e) ==
  CASE name = "BoundsAccepted" -> (e.a \in {"BoundsArg", "GeometryArg"} /\ IsBounds(e.s)) => Ok(e)
    [] name = "BoundsValueExact" ->
         (e.a \in {"BoundsArg", "GeometryArg"} /\ IsBounds(e.s) /\ Ok(e) /\ InThousandths(e.s)) =>
            /\ e.obs.ok.type = "Polygon"
            /\ ToSet(e.obs.ok.verts) = BoxCorners(BoundsValue(e.s))
    [] name = "NonBoundsRejected" ->
         \* text that is not exactly four comma separated numbers is never taken as bounds (and, being neither JSON nor a
         \* path in these events, is refused)
         (e.a \in {"BoundsArg", "GeometryArg"} /\ ~IsBounds(e.s)) => "err" \in DOMAIN e.obs
    [] name = "GeoJsonExact" ->
         (e.a = "GeoJson" /\ e.valid) => (Ok(e) /\ e.obs.ok.type = e.type /\ e.obs.ok.parts = e.parts)
    [] name = "BadGeometryRefused" -> (e.a = "GeoJson" /\ ~e.valid) => "err" \in DOMAIN e.obs
    [] name = "CliEqualsLibrary" ->
         (e.a = "Cli" /\ e.request = "good" /\ "ok" \in DOMAIN e.lib) => (e.obs.exit = 0 /\ e.obs.out = e.lib.ok)
    [] name = "CliFailsWhenLibraryFails" ->
         (e.a = "Cli" /\ e.request = "good" /\ "err" \in DOMAIN e.lib) => (e.obs.exit # 0 /\ e.obs.message)
    [] name = "CliRefusesBadRequest" ->
         (e.a = "Cli" /\ e.request = "bad") => (e.obs.exit # 0 /\ e.obs.message)
    [] name = "BeyondTheGlobeRefused" ->
         \* a requested point more than 180 degrees from the prime meridian (11520 quanta) lies outside every model:
         \* under the `error` policy the command fails, whatever the library call did
         (e.a = "Cli" /\ e.cmd = "extract-points" /\ e.policy = "error"
            /\ \E k \in 1..Len(e.points) : e.points[k][1] > 11520 \/ e.points[k][1] < 0 - 11520) =>
            (e.obs.exit # 0 /\ e.obs.out = [absent |-> TRUE])
    [] name = "NoPartialOutput" ->
         (e.a = "Cli" /\ e.obs.exit # 0) => e.obs.out = [absent |-> TRUE]

Failing(e) == {name \in Names : ~Holds(name, e)}
SeenOf(e) == {e.a}
  \cup (IF e.a \in {"BoundsArg", "GeometryArg"} THEN (IF IsBounds(e.s) THEN {"is-bounds"} ELSE {"not-bounds"}) ELSE {})
  \cup (IF e.a \in {"BoundsArg", "GeometryArg"} /\ \E k \in 1..Len(e.s) : e.s[k] = USCORE THEN {"underscore"} ELSE {})
  \cup (IF e.a \in {"BoundsArg", "GeometryArg"} /\ IsBounds(e.s) /\ \E k \in 1..Len(e.s) : IsWs(e.s[k]) THEN {"spaces"} ELSE {})
  \cup (IF e.a \in {"BoundsArg", "GeometryArg"} /\ ~IsBounds(e.s) /\ Cardinality(Commas(e.s)) = 4 THEN {"five-numbers"} ELSE {})
  \cup (IF e.a = "GeoJson" THEN {"geojson-" \o e.via} \cup (IF e.valid THEN {"geojson-valid"} ELSE {"geojson-invalid"}) ELSE {})
  \cup (IF e.a = "Cli" THEN {"cmd-" \o e.cmd, "conv-" \o e.conv, "request-" \o e.request} \cup {"flag-" \o e.flags[k] : k \in 1..Len(e.flags)}
            \cup (IF "err" \in DOMAIN e.lib THEN {"library-fails"} ELSE {}) ELSE {})

Done == t > Len(Log)
TInit == t = 1 /\ l = 1 /\ fails = {} /\ seen = {}
Step == /\ ~Done
        /\ fails' = fails \cup {<<Rec.tid, l, name>> : name \in Failing(Ev)}
        /\ seen' = seen \cup SeenOf(Ev)
        /\ IF l < Len(Rec.events) THEN l' = l + 1 /\ t' = t ELSE l' = 1 /\ t' = t + 1
TSpec == TInit /\ [][Step]_tvars
Verdict == [records |-> Len(Log), fails |-> SetToSeq(fails), seen |-> SetToSeq(seen), missing |-> <<>>]
EmitVerdict == Done => JsonSerialize(IOEnv.VERDICT_FILE, Verdict)
=============================================================================
