SPECIFICATION Spec
CONSTANTS
  Grids <- ThoroughGrids
  Extras <- ThoroughExtras
  Depth = 4
INVARIANT WellFormed
INVARIANT ValuesKeepAddress
INVARIANT ValuesOnlyMoved
INVARIANT LayoutAfterRavel
INVARIANT GridDimsInConventionOrder
INVARIANT WindAfterRavelDims
INVARIANT RavelAfterWindIdentity
INVARIANT NoGridRefused
INVARIANT PartialGridRefused
CHECK_DEADLOCK FALSE
