--------------------------------- MODULE Cli ---------------------------------
(***************************************************************************)
(* Command line arguments (cli/utils.py): the bounds grammar               *)
(*   NUMBER  = digit+ ( '_' digit+ )*                                      *)
(*   DECIMAL = '-'? ( NUMBER | NUMBER '.' | '.' NUMBER | NUMBER '.' NUMBER )*)
(*   BOUNDS  = DECIMAL ( ws* ',' ws* DECIMAL ){3}        -- the WHOLE text  *)
(* over code points, and the value of a decimal in thousandths.            *)
(***************************************************************************)
EXTENDS Naturals, Integers, Sequences, FiniteSets

IsDigit(c) == c >= 48 /\ c <= 57
IsWs(c) == c \in {32, 9, 10, 13, 11, 12}
COMMA == 44  DOT == 46  MINUS == 45  USCORE == 95

\* ---- declarative: a NUMBER is digits separated by single underscores, not at the ends
IsNumber(s) ==
  /\ Len(s) >= 1 /\ IsDigit(s[1]) /\ IsDigit(s[Len(s)])
  /\ \A k \in 1..Len(s) : IsDigit(s[k]) \/ (s[k] = USCORE /\ k > 1 /\ k < Len(s) /\ IsDigit(s[k - 1]) /\ IsDigit(s[k + 1]))
IsUnsignedDecimal(s) ==
  \/ IsNumber(s)
  \/ \E p \in 1..Len(s) : s[p] = DOT /\
        LET a == SubSeq(s, 1, p - 1)  b == SubSeq(s, p + 1, Len(s))
        IN (IsNumber(a) /\ b = <<>>) \/ (a = <<>> /\ IsNumber(b)) \/ (IsNumber(a) /\ IsNumber(b))
IsDecimal(s) == IF Len(s) >= 1 /\ s[1] = MINUS THEN IsUnsignedDecimal(Tail(s)) ELSE IsUnsignedDecimal(s)

\* strip white space adjacent to the commas only: the outer ends of the first and last field must be clean
LStrip(s) == IF s # <<>> /\ IsWs(s[1]) THEN SubSeq(s, CHOOSE k \in 1..(Len(s) + 1) : (\A m \in 1..(k - 1) : IsWs(s[m])) /\ (k = Len(s) + 1 \/ ~IsWs(s[k])), Len(s)) ELSE s
RStrip(s) == IF s # <<>> /\ IsWs(s[Len(s)]) THEN SubSeq(s, 1, CHOOSE k \in 0..Len(s) : (\A m \in (k + 1)..Len(s) : IsWs(s[m])) /\ (k = 0 \/ ~IsWs(s[k]))) ELSE s
Commas(s) == {k \in 1..Len(s) : s[k] = COMMA}
Nth(S, n) == CHOOSE k \in S : Cardinality({m \in S : m < k}) = n - 1
Fields(s) ==      \* only when there are exactly three commas
  LET c1 == Nth(Commas(s), 1)  c2 == Nth(Commas(s), 2)  c3 == Nth(Commas(s), 3)
  IN << RStrip(SubSeq(s, 1, c1 - 1)), LStrip(RStrip(SubSeq(s, c1 + 1, c2 - 1))),
        LStrip(RStrip(SubSeq(s, c2 + 1, c3 - 1))), LStrip(SubSeq(s, c3 + 1, Len(s))) >>
IsBounds(s) == Cardinality(Commas(s)) = 3 /\ \A k \in 1..4 : IsDecimal(Fields(s)[k])

\* ---- operational: a left-to-right scanner (what a full regular-expression match does)
\* states: 0 start of decimal (sign allowed), 1 after sign, 2 in int digits, 3 after '_' in int, 4 after '.' with int part,
\*         5 in frac digits, 6 after '_' in frac, 7 after '.' without int part, 8 white space after a decimal, 9 after comma
Accepting(q) == q \in {2, 4, 5}
StepQ(q, c) ==      \* -1 = reject; 10 = a comma has just been consumed (next decimal starts)
  CASE q = 0 -> IF c = MINUS THEN 1 ELSE IF IsDigit(c) THEN 2 ELSE IF c = DOT THEN 7 ELSE -1
    [] q = 1 -> IF IsDigit(c) THEN 2 ELSE IF c = DOT THEN 7 ELSE -1
    [] q = 2 -> IF IsDigit(c) THEN 2 ELSE IF c = USCORE THEN 3 ELSE IF c = DOT THEN 4 ELSE IF IsWs(c) THEN 8 ELSE IF c = COMMA THEN 10 ELSE -1
    [] q = 3 -> IF IsDigit(c) THEN 2 ELSE -1
    [] q = 4 -> IF IsDigit(c) THEN 5 ELSE IF IsWs(c) THEN 8 ELSE IF c = COMMA THEN 10 ELSE -1
    [] q = 5 -> IF IsDigit(c) THEN 5 ELSE IF c = USCORE THEN 6 ELSE IF IsWs(c) THEN 8 ELSE IF c = COMMA THEN 10 ELSE -1
    [] q = 6 -> IF IsDigit(c) THEN 5 ELSE -1
    [] q = 7 -> IF IsDigit(c) THEN 5 ELSE -1
    [] q = 8 -> IF IsWs(c) THEN 8 ELSE IF c = COMMA THEN 10 ELSE -1
    [] q = 9 -> IF IsWs(c) THEN 9 ELSE IF c = MINUS THEN 1 ELSE IF IsDigit(c) THEN 2 ELSE IF c = DOT THEN 7 ELSE -1
    [] OTHER -> -1
RECURSIVE Scan(_, _, _, _)
Scan(s, k, q, commas) ==
  IF q = -1 THEN FALSE
  ELSE IF k > Len(s) THEN Accepting(q) /\ commas = 3
  ELSE LET n == StepQ(q, s[k])
       IN IF n = 10 THEN Scan(s, k + 1, 9, commas + 1) ELSE Scan(s, k + 1, n, commas)
ScanBounds(s) == Scan(s, 1, 0, 0)

\* ---- the value of a DECIMAL in thousandths (at most three fractional digits are generated)
Digits(s) == SelectSeq(s, IsDigit)
RECURSIVE NumVal(_)
NumVal(d) == IF d = <<>> THEN 0 ELSE NumVal(SubSeq(d, 1, Len(d) - 1)) * 10 + (d[Len(d)] - 48)
Pow10(n) == IF n = 0 THEN 1 ELSE IF n = 1 THEN 10 ELSE IF n = 2 THEN 100 ELSE 1000
Thousandths(s) ==
  LET neg == s[1] = MINUS
      u == IF neg THEN Tail(s) ELSE s
      dots == {k \in 1..Len(u) : u[k] = DOT}
      p == IF dots = {} THEN Len(u) + 1 ELSE CHOOSE k \in dots : TRUE
      ip == Digits(SubSeq(u, 1, p - 1))
      fp == Digits(SubSeq(u, p + 1, Len(u)))
      v == NumVal(ip) * 1000 + NumVal(fp) * Pow10(3 - Len(fp))
  IN IF neg THEN 0 - v ELSE v
\* number of digits after the decimal point of a DECIMAL
FracLen(s) ==
  LET dots == {k \in 1..Len(s) : s[k] = DOT}
  IN IF dots = {} THEN 0 ELSE Len(Digits(SubSeq(s, (CHOOSE k \in dots : TRUE) + 1, Len(s))))
\* the value can be given exactly in thousandths
InThousandths(s) == \A k \in 1..4 : FracLen(Fields(s)[k]) <= 3 /\ Len(Digits(Fields(s)[k])) - FracLen(Fields(s)[k]) <= 5
BoundsValue(s) == [k \in 1..4 |-> Thousandths(Fields(s)[k])]
=============================================================================
