----------------------------- MODULE MC_C11_defs -----------------------------
EXTENDS MC_C11
F(ll, ems, ji, std8, ug, mv, t2, xs, ys) ==
  [ll |-> ll, ems |-> ems, ji |-> ji, std8 |-> std8, ugconv |-> ug, meshvar |-> mv, topo2 |-> t2, xs |-> xs, ys |-> ys]
\* a CF 1-D dataset that X also claims at LOW; a SHOC-simple-like dataset (HIGH and LOW match) that Y claims at HIGH;
\* a dataset nothing built in matches but X claims
TheContents == << F("1d", FALSE, FALSE, FALSE, FALSE, FALSE, FALSE, LOW, 0),
                  F("2d", TRUE, TRUE, FALSE, FALSE, FALSE, FALSE, 0, HIGH),
                  F("none", FALSE, FALSE, FALSE, TRUE, FALSE, TRUE, MEDIUM, 0),
                  F("mixed", TRUE, FALSE, FALSE, TRUE, TRUE, FALSE, 0, 0),
                  \* both SHOC conventions match at HIGH: a tie between built-ins that a manual registration of one of them decides
                  F("2d", TRUE, TRUE, TRUE, FALSE, FALSE, FALSE, 0, 0) >>
TheEntryPoints == <<"ArakawaC", "CFGrid1D", "CFGrid2D", "ShocSimple", "ShocStandard", "UGrid">>
TheExtra == {"X", "Y", "ShocStandard"}      \* a built-in class can be registered by hand as well
TheConstruct == {"CFGrid2D", "X"}
=============================================================================
