SPECIFICATION Spec
CHECK_DEADLOCK FALSE
INVARIANT OnlyValidCells
INVARIANT EveryValidCellOnce
INVARIANT LinearOrder
INVARIANT IndexesIdentifyCell
CONSTANT Big = TRUE
