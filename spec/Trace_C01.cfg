SPECIFICATION TSpec
CONSTANTS
  MaxDim = 3
  MaxUG = 4
  Margin = 2
INVARIANT EmitVerdict
CHECK_DEADLOCK FALSE
