SPECIFICATION Spec
CONSTANTS
  BaseWorld <- SysBase
  VarChoices <- SysVarChoices
  PointLists <- SysPointLists
  MaxObjs = 3
  MaxMasks = 1
  MaxConvs = 1
  MaskSizes = {2}
  MaxFiles = 1
  MaxOff = 1
  Depth = 100
VIEW view
INVARIANT ViewsWellFormed
INVARIANT CropTight
INVARIANT CachedIsBound
INVARIANT BoundBelongs
PROPERTY NoResurrection
PROPERTY BoundStable
PROPERTY NewStartUnbound
CHECK_DEADLOCK FALSE
