SPECIFICATION Spec
CONSTANTS
  BaseWorld <- SysBase
  VarChoices <- SysVarChoices
  MaxObjs = 3
  MaxMasks = 2
  MaxConvs = 2
  Depth = 100
VIEW view
INVARIANT ViewsWellFormed
INVARIANT CropTight
INVARIANT CachedIsBound
INVARIANT BoundBelongs
PROPERTY NoResurrection
PROPERTY BoundStable
PROPERTY NewStartUnbound
CHECK_DEADLOCK FALSE
