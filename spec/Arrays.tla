------------------------------- MODULE Arrays -------------------------------
(***************************************************************************)
(* Shapes, row-major index arithmetic and N-d arrays as they appear in     *)
(* emsarray (numpy.ravel_multi_index / unravel_index, utils.ravel_         *)
(* dimensions, utils.wind_dimension, utils.move_dimensions_to_end,         *)
(* utils.splice_tuple, utils.find_unused_dimension).                       *)
(*                                                                         *)
(* Index components are 0-based (as in the code); TLA+ sequence positions   *)
(* are 1-based.  An N-d array is a record                                  *)
(*     [dims |-> Seq(name), shape |-> Seq(Nat), data |-> Seq(value)]       *)
(* with data in C (row-major) order of dims.                               *)
(***************************************************************************)
EXTENDS Naturals, Integers, Sequences, FiniteSets, SequencesExt, FiniteSetsExt, Functions, TLC

\* ---------------------------------------------------------------- helpers
RECURSIVE ProdSeq(_)
ProdSeq(s) == IF s = <<>> THEN 1 ELSE Head(s) * ProdSeq(Tail(s))

RECURSIVE SumSeq(_)
SumSeq(s) == IF s = <<>> THEN 0 ELSE Head(s) + SumSeq(Tail(s))

Range1(s) == {s[k] : k \in DOMAIN s}

PosOf(s, x) == CHOOSE k \in DOMAIN s : s[k] = x   \* first is irrelevant: dims are unique

IsInjectiveSeq(s) == \A a, b \in DOMAIN s : s[a] = s[b] => a = b

\* ------------------------------------------------ index tuples of a shape
\* All index tuples of a shape, as sequences of 0-based components.
Indices(shape) ==
  IF shape = <<>> THEN {<<>>}
  ELSE {f \in [1..Len(shape) -> 0..(Max(Range1(shape) \cup {1}) - 1)] :
            \A k \in 1..Len(shape) : f[k] < shape[k]}

InRange(shape, idx) ==
  /\ Len(idx) = Len(shape)
  /\ \A k \in 1..Len(shape) : idx[k] >= 0 /\ idx[k] < shape[k]

\* Operational: the arithmetic numpy.ravel_multi_index performs (Horner).
RECURSIVE RavelFrom(_, _, _, _)
RavelFrom(shape, idx, k, acc) ==
  IF k > Len(shape) THEN acc
  ELSE RavelFrom(shape, idx, k + 1, acc * shape[k] + idx[k])
RavelRM(shape, idx) == RavelFrom(shape, idx, 1, 0)

\* Operational: numpy.unravel_index (repeated div/mod from the last axis).
RECURSIVE UnravelFrom(_, _, _, _)
UnravelFrom(shape, n, k, acc) ==
  IF k = 0 THEN acc
  ELSE UnravelFrom(shape, n \div shape[k], k - 1, <<n % shape[k]>> \o acc)
UnravelRM(shape, n) == UnravelFrom(shape, n, Len(shape), <<>>)

\* Declarative: lexicographic order on index tuples and rank in that order.
LexLess(a, b) ==
  \E k \in 1..Len(a) : a[k] < b[k] /\ \A m \in 1..(k - 1) : a[m] = b[m]
RankLex(shape, idx) == Cardinality({j \in Indices(shape) : LexLess(j, idx)})

\* ------------------------------------------------------------ N-d arrays
Size(A) == ProdSeq(A.shape)

WellFormedArray(A) ==
  /\ Len(A.dims) = Len(A.shape)
  /\ IsInjectiveSeq(A.dims)
  /\ Len(A.data) = ProdSeq(A.shape)

\* value at an index tuple given in the array's own dimension order
At(A, idx) == A.data[RavelRM(A.shape, idx) + 1]

\* value at a named index: f is a function dim name -> component
AtNamed(A, f) == At(A, [k \in 1..Len(A.dims) |-> f[A.dims[k]]])

\* The array with its dimensions re-ordered to newdims (a permutation).
Transpose(A, newdims) ==
  LET newshape == [k \in 1..Len(newdims) |-> A.shape[PosOf(A.dims, newdims[k])]]
      N == ProdSeq(newshape)
      Val(p) == LET nidx == UnravelRM(newshape, p - 1)
                    oidx == [k \in 1..Len(A.dims) |-> nidx[PosOf(newdims, A.dims[k])]]
                IN At(A, oidx)
  IN [dims |-> newdims, shape |-> newshape, data |-> [p \in 1..N |-> Val(p)]]

\* utils.move_dimensions_to_end: the other dimensions keep their order, the
\* requested ones follow in the REQUESTED order.
MoveToEnd(A, sel) ==
  Transpose(A, SelectSeq(A.dims, LAMBDA d : d \notin Range1(sel)) \o sel)

\* utils.find_unused_dimension(prefix): prefix, else prefix_0, prefix_1 ...
\* Names are modelled as <<prefix, k>> with k = -1 for the bare prefix.
FindUnused(prefix, dims) ==
  IF <<prefix, -1>> \notin dims THEN <<prefix, -1>>
  ELSE <<prefix, CHOOSE k \in 0..Cardinality(dims) :
             /\ <<prefix, k>> \notin dims
             /\ \A m \in 0..(k - 1) : <<prefix, m>> \in dims>>

\* the same with string names, as the implementation spells them
FindUnusedStr(prefix, dims) ==
  IF prefix \notin dims THEN prefix
  ELSE LET k == CHOOSE k \in 0..Cardinality(dims) :
                  /\ (prefix \o "_" \o ToString(k)) \notin dims
                  /\ \A m \in 0..(k - 1) : (prefix \o "_" \o ToString(m)) \in dims
       IN prefix \o "_" \o ToString(k)

\* utils.ravel_dimensions: move the grid dims to the end, flatten them into
\* one dimension called `name`.
Ravel(A, griddims, name) ==
  LET M == MoveToEnd(A, griddims)
      keep == Len(M.dims) - Len(griddims)
  IN [dims  |-> SubSeq(M.dims, 1, keep) \o <<name>>,
      shape |-> SubSeq(M.shape, 1, keep) \o <<ProdSeq(SubSeq(M.shape, keep + 1, Len(M.shape)))>>,
      data  |-> M.data]

\* utils.splice_tuple(t, index, values) with a 0-based index
Splice(t, i0, vs) == SubSeq(t, 1, i0) \o vs \o SubSeq(t, i0 + 2, Len(t))

\* utils.wind_dimension: the linear dimension is replaced, in place, by the
\* grid dimensions; data is only re-shaped.
Wind(A, lindim, griddims, sizes) ==
  LET p == PosOf(A.dims, lindim)
  IN [dims  |-> Splice(A.dims, p - 1, griddims),
      shape |-> Splice(A.shape, p - 1, sizes),
      data  |-> A.data]

\* Declarative reading of Ravel: element (e, n) of the result is the element
\* of A at extra-index e and grid index Unravel(n).
RavelAtDecl(A, griddims, gridshape, e, n) ==
  LET g == UnravelRM(gridshape, n)
      f == [d \in Range1(A.dims) |->
              IF d \in Range1(griddims) THEN g[PosOf(griddims, d)]
              ELSE e[d]]
  IN AtNamed(A, f)

=============================================================================
