SPECIFICATION Spec
CONSTANTS
  NX = 2
  NY = 2
  MaxVerts = 2
INVARIANT PiecesInsideCell
INVARIANT PiecesMaximal
INVARIANT CoverExactly
INVARIANT LengthsAddUp
INVARIANT SharedCountedTwice
CHECK_DEADLOCK FALSE
