------------------------------ MODULE CacheKey ------------------------------
(***************************************************************************)
(* The byte stream fed to the hash by make_cache_key / hash_geometry.      *)
(* A geometry is [vars : Seq([name, dtype, shape, bytes, nattrs, m]),      *)
(* module, class, version] with name / dtype / module / class / version /  *)
(* bytes / m sequences of byte values.  Payloads are the successive        *)
(* arguments of hash.update().                                             *)
(***************************************************************************)
EXTENDS Naturals, Integers, Sequences, FiniteSets, SequencesExt

\* int32 little endian (non-negative values only are ever hashed)
I32(n) == <<n % 256, (n \div 256) % 256, (n \div 65536) % 256, (n \div 16777216) % 256>>
RECURSIVE ProdS(_)
ProdS(s) == IF s = <<>> THEN 1 ELSE Head(s) * ProdS(Tail(s))
RECURSIVE FlatMap(_, _)
FlatMap(F(_), s) == IF s = <<>> THEN <<>> ELSE F(Head(s)) \o FlatMap(F, Tail(s))

\* payloads of one variable, in order
VarPayloads(v) ==
  << I32(Len(v.name)), v.name,            \* hash_string(name)
     I32(Len(v.dtype)), v.dtype,          \* hash_string(dtype name)
     I32(ProdS(v.shape)),                 \* hash_int(size)
     FlatMap(I32, v.shape),               \* int32 shape
     v.bytes,                             \* the values
     I32(4), I32(v.nattrs), I32(Len(v.m)), v.m >>     \* hash_attributes
StrPayloads(s) == <<I32(Len(s)), s>>

RECURSIVE VarsPayloads(_)
VarsPayloads(vs) == IF vs = <<>> THEN <<>> ELSE VarPayloads(Head(vs)) \o VarsPayloads(Tail(vs))
Payloads(g) == VarsPayloads(g.vars) \o StrPayloads(g.module) \o StrPayloads(g.class) \o StrPayloads(g.version)

RECURSIVE Concat(_)
Concat(ps) == IF ps = <<>> THEN <<>> ELSE Head(ps) \o Concat(Tail(ps))
\* what the hash sees
Stream(g) == Concat(Payloads(g))

\* the same stream without the length / size prefixes (to show they are load bearing)
BareVar(v) == v.name \o v.dtype \o FlatMap(I32, v.shape) \o v.bytes \o v.m
RECURSIVE BareVars(_)
BareVars(vs) == IF vs = <<>> THEN <<>> ELSE BareVar(Head(vs)) \o BareVars(Tail(vs))
BareStream(g) == BareVars(g.vars) \o g.module \o g.class \o g.version
=============================================================================
