SPECIFICATION Spec
CONSTANTS
  L = 3
  MinN = 3
  MaxN = 5
INVARIANT CodePartitions
INVARIANT EarClipFindsDiagonal
CHECK_DEADLOCK FALSE
