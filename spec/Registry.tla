------------------------------ MODULE Registry ------------------------------
(***************************************************************************)
(* Convention detection and binding (conventions/_registry.py,             *)
(* accessors.py, state.py, Convention.bind).                               *)
(*                                                                         *)
(* A dataset's detection-relevant content is a feature record              *)
(*   [ll : {"none","1d","2d","mixed"},  rank of the CF latitude/longitude  *)
(*    ems, ji, std8, ugconv, meshvar, topo2 : BOOLEAN]                     *)
(* Built-in classes match by these features; test classes "X", "Y" match   *)
(* every dataset whose feature record has xs / ys > 0 with that            *)
(* specificity.                                                            *)
(***************************************************************************)
EXTENDS Naturals, Integers, Sequences, FiniteSets, SequencesExt

LOW == 10
MEDIUM == 20
HIGH == 30

Builtins == {"ArakawaC", "CFGrid1D", "CFGrid2D", "ShocSimple", "ShocStandard", "UGrid"}

\* check_dataset of each class: specificity, 0 = no match
Check(c, k) ==
  CASE k = "CFGrid1D"     -> IF c.ll = "1d" THEN LOW ELSE 0
    [] k = "CFGrid2D"     -> IF c.ll = "2d" THEN LOW ELSE 0
    [] k = "ShocSimple"   -> IF c.ems /\ c.ji THEN HIGH ELSE 0
    [] k = "ShocStandard" -> IF c.std8 THEN HIGH ELSE 0
    [] k = "UGrid"        -> IF c.ugconv /\ c.meshvar /\ c.topo2 THEN HIGH ELSE 0
    [] k = "ArakawaC"     -> 0
    [] k = "X"            -> c.xs
    [] k = "Y"            -> c.ys
    [] OTHER              -> 0

\* registered classes first, then the entry points, without duplicates
Dedup(s) == SelectSeq([k \in 1..Len(s) |-> IF \E m \in 1..(k - 1) : s[m] = s[k] THEN "" ELSE s[k]], LAMBDA x : x # "")
Ordered(reg, eps) == Dedup(reg \o eps)

Matches(c, reg, eps) == SelectSeq(Ordered(reg, eps), LAMBDA k : Check(c, k) > 0)
MaxSpec(c, reg, eps) == LET m == Matches(c, reg, eps) IN
  IF m = <<>> THEN 0 ELSE CHOOSE s \in {Check(c, m[k]) : k \in 1..Len(m)} : \A k \in 1..Len(m) : Check(c, m[k]) <= s

\* stable descending sort, head: the first class in Ordered whose specificity is maximal
Best(c, reg, eps) ==
  LET m == Matches(c, reg, eps) IN
  IF m = <<>> THEN "None"
  ELSE m[CHOOSE k \in 1..Len(m) : Check(c, m[k]) = MaxSpec(c, reg, eps)
                                  /\ \A j \in 1..(k - 1) : Check(c, m[j]) < MaxSpec(c, reg, eps)]

\* what the property leaves open: among equally specific built-ins (no registered class at the top) any of them
TopClasses(c, reg, eps) == {k \in ToSet(Ordered(reg, eps)) : Check(c, k) > 0 /\ Check(c, k) = MaxSpec(c, reg, eps)}
RegisteredTop(c, reg, eps) == SelectSeq(reg, LAMBDA k : k \in TopClasses(c, reg, eps))
Allowed(c, reg, eps) ==
  IF TopClasses(c, reg, eps) = {} THEN {"None"}
  ELSE IF RegisteredTop(c, reg, eps) # <<>> THEN {RegisteredTop(c, reg, eps)[1]}      \* a manual registration wins ties
  ELSE TopClasses(c, reg, eps)

=============================================================================
