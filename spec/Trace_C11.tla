------------------------------ MODULE Trace_C11 ------------------------------
(***************************************************************************)
(* Trace validation for C11: behaviours of register / detect / access /    *)
(* construct / bind / copy replayed through the actions of MC_C11.  After  *)
(* each action the implementation's answer and the binding of every live  *)
(* dataset (State.get(ds).convention) are compared with the specification's*)
(* next state.                                                             *)
(***************************************************************************)
EXTENDS MC_C11, IOUtils, TLCExt

TLog == ndJsonDeserialize(IOEnv.TRACE_FILE)
VARIABLES t, l, fails, seen
tvars == <<t, l, fails, seen, registry, content, bound, cached, convs, out, hist>>
Rec == TLog[t]
Ev  == TLog[t].events[l]

\* every feature record, indexed canonically: the drivers use the same encoding
LLs == <<"none", "1d", "2d", "mixed">>
Specs == <<0, LOW, MEDIUM, HIGH>>
Bit(n, k) == (n \div (2 ^ k)) % 2 = 1
Decode(i) ==       \* i \in 0 .. 4*64*16 - 1
  LET b == i % 64  ll == (i \div 64) % 4  x == (i \div 256) % 4  y == (i \div 1024) % 4
  IN [ll |-> LLs[ll + 1], ems |-> Bit(b, 0), ji |-> Bit(b, 1), std8 |-> Bit(b, 2), ugconv |-> Bit(b, 3),
      meshvar |-> Bit(b, 4), topo2 |-> Bit(b, 5), xs |-> Specs[x + 1], ys |-> Specs[y + 1]]
AllContents == [i \in 1..4096 |-> Decode(i - 1)]
TraceEPs == TLog[1].w.eps
TraceExtra == {"X", "Y"}
TraceConstruct == Builtins \cup TraceExtra

Stripped(c, k) == IF Bit((c - 1) % 64, k) THEN c - (2 ^ k) ELSE c
InitOf(r) == [o \in Objs |-> IF o <= Len(r.init) THEN r.init[o] ELSE 0]

Names == {"KnownAction", "DetectAllowed", "DetectDeterministic", "AccessClass", "AccessIdentity", "AccessRefused",
          "ConstructFresh", "BindOutcome", "CopyFresh", "BoundState"}

\* the class chosen for this event: the observed one when the property allows it, else the specification's
ChosenK(e) ==
  LET al == Allowed(C(e.obj), registry, EntryPoints)
  IN IF e.obs.cls \in al THEN e.obs.cls ELSE Best(C(e.obj), registry, EntryPoints)

\* clause evaluation in the post-state
Holds(name, e) ==
  CASE name = "KnownAction" -> e.a \in {"Register", "Detect", "Access", "Construct", "Bind", "Copy", "Strip"}
    [] name = "DetectAllowed" ->
         e.a = "Detect" => e.obs.cls \in Allowed(C(e.obj), registry, EntryPoints)
    [] name = "DetectDeterministic" ->
         \* two detections of the same content under the same registry agree (obs carries the previous answer seen)
         e.a = "Detect" => (e.obs.prev = "" \/ e.obs.prev = e.obs.cls)
    [] name = "AccessClass" ->
         (e.a = "Access" /\ out'.cls # "error") => e.obs.cls = out'.cls
    [] name = "AccessIdentity" ->
         (e.a = "Access" /\ out'.cls # "error") => e.obs.conv = out'.conv
    [] name = "AccessRefused" ->
         e.a = "Access" => ((out'.cls = "error") <=> (e.obs.cls = "error"))
    [] name = "ConstructFresh" ->
         e.a = "Construct" => (e.obs.conv = out'.conv /\ e.obs.cls = e.cls)
    [] name = "BindOutcome" ->
         e.a = "Bind" => e.obs.ok = out'.ok
    [] name = "CopyFresh" ->
         e.a \in {"Copy", "Strip"} => e.obs.new = out'.new
    [] name = "BoundState" ->
         \* the convention attached to every live dataset, as the implementation reports it after the action
         /\ Len(e.obs.bound) = Cardinality({o \in Objs : content'[o] # 0})
         /\ \A o \in 1..Len(e.obs.bound) : e.obs.bound[o] = bound'[o]

Failing(e) == {name \in Names : ~Holds(name, e)}

SeenOf(e) == {e.a}
  \cup (IF e.a = "Access" /\ e.obs.cls = "error" THEN {"access-refused"} ELSE {})
  \cup (IF e.a = "Bind" /\ ~e.obs.ok THEN {"bind-refused"} ELSE {})
  \cup (IF e.a = "Bind" /\ e.obs.ok THEN {"bind-ok"} ELSE {})
  \cup (IF e.a = "Detect" /\ Cardinality(Allowed(C(e.obj), registry, EntryPoints)) > 1 THEN {"builtin-tie"} ELSE {})
  \cup (IF e.a = "Detect" /\ e.obs.cls \in Extra THEN {"manual-wins"} ELSE {})
  \cup (IF e.a = "Detect" /\ e.obs.cls = "None" THEN {"nothing-matches"} ELSE {})
  \cup (IF e.a = "Construct" /\ e.cls = "ArakawaC" THEN {"hand-made-arakawa"} ELSE {})
  \cup (IF e.a = "Strip" /\ cached[e.obj] # 0 /\ Best(AllContents[Stripped(content[e.obj], e.bit)], registry, EntryPoints) # Best(C(e.obj), registry, EntryPoints)
        THEN {"derived-from-bound-detects-differently"} ELSE {})
  \* a built-in class registered by hand decides a tie between built-ins
  \cup (IF e.a = "Detect" /\ Cardinality(TopClasses(C(e.obj), registry, EntryPoints)) > 1
           /\ RegisteredTop(C(e.obj), registry, EntryPoints) # <<>>
           /\ RegisteredTop(C(e.obj), registry, EntryPoints)[1] \in Builtins THEN {"builtin-registered"} ELSE {})
  \cup (IF e.a = "Detect" THEN {"detected-" \o e.obs.cls} ELSE {})
  \cup (IF e.a = "Access" /\ cached[e.obj] # 0 THEN {"access-cached"} ELSE {})
  \cup (IF e.a = "Access" /\ cached[e.obj] = 0 /\ bound[e.obj] # 0 THEN {"access-after-manual-bind"} ELSE {})

Done == t > Len(TLog)

TInit ==
  /\ t = 1 /\ l = 1 /\ fails = {} /\ seen = {}
  /\ registry = <<>> /\ convs = <<>> /\ out = [a |-> "init"] /\ hist = <<>>
  /\ content = IF Len(TLog) > 0 THEN InitOf(TLog[1]) ELSE [o \in Objs |-> 0]
  /\ bound = [o \in Objs |-> 0] /\ cached = [o \in Objs |-> 0]

\* the specification action for the recorded event
Act(e) ==
  CASE e.a = "Register"  -> /\ registry' = Append(registry, e.cls) /\ out' = [a |-> "Register", cls |-> e.cls]
                            /\ Log([a |-> "Register", cls |-> e.cls]) /\ UNCHANGED <<content, bound, cached, convs>>
    [] e.a = "Detect"    -> DetectK(e.obj, ChosenK(e))
    [] e.a = "Access"    -> AccessK(e.obj, ChosenK(e))
    [] e.a = "Construct" -> Construct(e.cls, e.obj)
    [] e.a = "Bind"      -> Bind(e.conv)
    [] e.a = "Copy"      -> Copy(e.obj)
    \* a copy of e.obj with distinguishing feature number e.bit removed (canonical index arithmetic)
    [] e.a = "Strip"     -> Derive(e.obj, Stripped(content[e.obj], e.bit))

LastOfRecord == l = Len(Rec.events)

Step ==
  /\ ~Done
  /\ Act(Ev)
  /\ fails' = fails \cup {<<Rec.tid, l, name>> : name \in Failing(Ev)}
  /\ seen' = seen \cup SeenOf(Ev)
  /\ IF ~LastOfRecord THEN l' = l + 1 /\ t' = t ELSE l' = 1 /\ t' = t + 1

\* starting the next record: a fresh registry and fresh datasets
Reset ==
  /\ ~Done /\ l = 1 /\ (registry # <<>> \/ convs # <<>> \/ hist # <<>> \/ content # InitOf(Rec))
  /\ registry' = <<>> /\ convs' = <<>> /\ out' = [a |-> "init"] /\ hist' = <<>>
  /\ content' = InitOf(Rec) /\ bound' = [o \in Objs |-> 0] /\ cached' = [o \in Objs |-> 0]
  /\ UNCHANGED <<t, l, fails, seen>>

Fresh == l = 1 /\ registry = <<>> /\ convs = <<>> /\ hist = <<>> /\ content = InitOf(Rec)
TNext == IF ~Done /\ l = 1 /\ ~Fresh THEN Reset ELSE Step
TSpec == TInit /\ [][TNext]_tvars

Verdict == [records |-> Len(TLog), fails |-> SetToSeq(fails), seen |-> SetToSeq(seen), missing |-> <<>>]
EmitVerdict == Done => JsonSerialize(IOEnv.VERDICT_FILE, Verdict)
=============================================================================
