------------------------------ MODULE Lattice ------------------------------
(***************************************************************************)
(* Exact planar geometry on the integer lattice (coordinates in quanta).   *)
(* Points are <<x, y>>; a polygon is a sequence of >= 3 points without the *)
(* closing repeat; <<>> stands for "no polygon" (a hole).                  *)
(* All predicates are integer arithmetic within 32 bits for |coord| < 10^4.*)
(***************************************************************************)
EXTENDS Naturals, Integers, Sequences, FiniteSets

Cross(o, a, b) == (a[1] - o[1]) * (b[2] - o[2]) - (a[2] - o[2]) * (b[1] - o[1])

Sgn(v) == IF v > 0 THEN 1 ELSE IF v < 0 THEN -1 ELSE 0

MinI(a, b) == IF a < b THEN a ELSE b
MaxI(a, b) == IF a > b THEN a ELSE b

InBox(p, a, b) ==
  /\ MinI(a[1], b[1]) <= p[1] /\ p[1] <= MaxI(a[1], b[1])
  /\ MinI(a[2], b[2]) <= p[2] /\ p[2] <= MaxI(a[2], b[2])

\* p lies on the closed segment ab
OnSegment(p, a, b) == Cross(a, b, p) = 0 /\ InBox(p, a, b)

\* closed segments ab and cd have a common point (touching counts)
SegTouch(a, b, c, d) ==
  LET d1 == Sgn(Cross(c, d, a))
      d2 == Sgn(Cross(c, d, b))
      d3 == Sgn(Cross(a, b, c))
      d4 == Sgn(Cross(a, b, d))
  IN \/ (d1 * d2 < 0 /\ d3 * d4 < 0)
     \/ (d1 = 0 /\ InBox(a, c, d))
     \/ (d2 = 0 /\ InBox(b, c, d))
     \/ (d3 = 0 /\ InBox(c, a, b))
     \/ (d4 = 0 /\ InBox(d, a, b))

\* segments cross at a single point interior to both
SegCrossProper(a, b, c, d) ==
  /\ Sgn(Cross(c, d, a)) * Sgn(Cross(c, d, b)) < 0
  /\ Sgn(Cross(a, b, c)) * Sgn(Cross(a, b, d)) < 0

Nxt(P, k) == IF k = Len(P) THEN 1 ELSE k + 1

\* twice the signed area (shoelace); > 0 for counter-clockwise
RECURSIVE Area2From(_, _)
Area2From(P, k) ==
  IF k > Len(P) THEN 0
  ELSE P[k][1] * P[Nxt(P, k)][2] - P[Nxt(P, k)][1] * P[k][2] + Area2From(P, k + 1)
Area2(P) == Area2From(P, 1)
AbsI(v) == IF v < 0 THEN 0 - v ELSE v

OnBoundary(p, P) == \E k \in 1..Len(P) : OnSegment(p, P[k], P[Nxt(P, k)])

\* crossing number for a point not on the boundary
CrossesRay(p, a, b) ==
  /\ (a[2] > p[2]) # (b[2] > p[2])
  /\ LET d == b[2] - a[2]
         lhs == (p[1] - a[1]) * d
         rhs == (p[2] - a[2]) * (b[1] - a[1])
     IN IF d > 0 THEN lhs < rhs ELSE lhs > rhs

StrictlyInside(p, P) ==
  /\ ~OnBoundary(p, P)
  /\ Cardinality({k \in 1..Len(P) : CrossesRay(p, P[k], P[Nxt(P, k)])}) % 2 = 1

\* the polygon as a closed set contains p (touching counts)
PointInClosedPoly(p, P) == Len(P) >= 3 /\ (OnBoundary(p, P) \/ StrictlyInside(p, P))

\* a ring is simple: consecutive edges meet only in their common vertex, other
\* edges do not meet at all, no repeated vertex
IsSimple(P) ==
  /\ Len(P) >= 3
  /\ \A a, b \in 1..Len(P) : a # b => P[a] # P[b]
  /\ \A a, b \in 1..Len(P) : a < b =>
        LET a2 == Nxt(P, a)  b2 == Nxt(P, b)
        IN IF a2 = b            \* consecutive: share P[b] only
           THEN ~OnSegment(P[a], P[b], P[b2]) /\ ~OnSegment(P[b2], P[a], P[b])
           ELSE IF b2 = a
           THEN ~OnSegment(P[b], P[a], P[a2]) /\ ~OnSegment(P[a2], P[b], P[a])
           ELSE ~SegTouch(P[a], P[a2], P[b], P[b2])
  /\ Area2(P) # 0

IsConvex(P) ==
  \/ \A k \in 1..Len(P) : Cross(P[k], P[Nxt(P, k)], P[Nxt(P, Nxt(P, k))]) >= 0
  \/ \A k \in 1..Len(P) : Cross(P[k], P[Nxt(P, k)], P[Nxt(P, Nxt(P, k))]) <= 0

BBox(P) ==   \* <<minx, miny, maxx, maxy>> of a non-empty sequence of points
  LET xs == {P[k][1] : k \in 1..Len(P)}  ys == {P[k][2] : k \in 1..Len(P)}
      mn(S) == CHOOSE v \in S : \A u \in S : v <= u
      mx(S) == CHOOSE v \in S : \A u \in S : v >= u
  IN <<mn(xs), mn(ys), mx(xs), mx(ys)>>

\* ---------------------------------------------------------------- geometries
\* A geometry is a sequence of parts [t |-> "pt" | "ln" | "pg", pts |-> Seq(point)].
PartMeetsPoly(part, P) ==
  IF Len(P) < 3 THEN FALSE
  ELSE CASE part.t = "pt" -> PointInClosedPoly(part.pts[1], P)
         [] part.t = "ln" ->
              \/ \E k \in 1..(Len(part.pts) - 1) : \E m \in 1..Len(P) :
                    SegTouch(part.pts[k], part.pts[k + 1], P[m], P[Nxt(P, m)])
              \/ PointInClosedPoly(part.pts[1], P)
         [] part.t = "pg" ->
              \/ \E k \in 1..Len(part.pts) : \E m \in 1..Len(P) :
                    SegTouch(part.pts[k], part.pts[Nxt(part.pts, k)], P[m], P[Nxt(P, m)])
              \/ PointInClosedPoly(part.pts[1], P)
              \/ PointInClosedPoly(P[1], part.pts)

\* shapely "intersects": the geometry and the closed polygon share a point
GeomMeetsPoly(g, P) == \E k \in 1..Len(g) : PartMeetsPoly(g[k], P)

\* ---------------------------------------------------------------- triangles
\* closed triangle contains point
InTriangle(p, T) ==
  LET s1 == Sgn(Cross(T[1], T[2], p)) s2 == Sgn(Cross(T[2], T[3], p)) s3 == Sgn(Cross(T[3], T[1], p))
  IN ~(({s1, s2, s3} \cap {1}) # {} /\ ({s1, s2, s3} \cap {-1}) # {})

\* interiors of two non-degenerate triangles are disjoint: separating axis
\* among the six edges (all vertices of the other triangle on the outer side
\* or on the line)
SeparatedBy(T, U) ==
  \E k \in 1..3 :
     LET a == T[k]  b == T[Nxt(T, k)]  c == T[Nxt(T, Nxt(T, k))]
         s == Sgn(Cross(a, b, c))
     IN \A m \in 1..3 : Sgn(Cross(a, b, U[m])) * s <= 0
TrianglesDisjoint(T, U) == SeparatedBy(T, U) \/ SeparatedBy(U, T)

=============================================================================
