SPECIFICATION Spec
CHECK_DEADLOCK FALSE
INVARIANT ClippedMeshConsistent
INVARIANT EntriesInRange
INVARIANT ReloadTransparent
