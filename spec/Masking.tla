------------------------------ MODULE Masking ------------------------------
(***************************************************************************)
(* Clip masks: ring growing, edge / node marking, mesh renumbering.        *)
(* A boolean array is a sequence of rows of BOOLEAN; cells are <<j, i>>    *)
(* 0-based.                                                                *)
(***************************************************************************)
EXTENDS Naturals, Integers, Sequences, FiniteSets

H(m) == Len(m)
Wd(m) == IF Len(m) = 0 THEN 0 ELSE Len(m[1])
CellsOf(h, w) == (0..(h - 1)) \X (0..(w - 1))
Marked(m) == {c \in CellsOf(H(m), Wd(m)) : m[c[1] + 1][c[2] + 1]}
AsArray(S, h, w) == [j \in 1..h |-> [i \in 1..w |-> <<j - 1, i - 1>> \in S]]

AbsV(v) == IF v < 0 THEN 0 - v ELSE v
MaxV(a, b) == IF a > b THEN a ELSE b
Cheb(a, b) == MaxV(AbsV(a[1] - b[1]), AbsV(a[2] - b[2]))

\* Declarative: every cell within b steps, in any of the eight directions, of a marked cell
Grow(S, b, h, w) == {c \in CellsOf(h, w) : \E s \in S : Cheb(c, s) <= b}

\* Operational, as masking.blur_mask does it: a copy padded by b with False on
\* every side; cell c keeps its mark, or gets one if the (2b+1)-window of the
\* padded copy starting at c contains a mark.
Padded(m, b) ==
  [j \in 1..(H(m) + 2 * b) |-> [i \in 1..(Wd(m) + 2 * b) |->
     IF j - b >= 1 /\ j - b <= H(m) /\ i - b >= 1 /\ i - b <= Wd(m) THEN m[j - b][i - b] ELSE FALSE]]
Blur(m, b) ==
  LET p == Padded(m, b)
  IN [j \in 1..H(m) |-> [i \in 1..Wd(m) |->
        m[j][i] \/ \E dj \in 0..(2 * b) : \E di \in 0..(2 * b) : p[j + dj][i + di]]]

\* Operational, as masking.smear_mask does it: OR of copies padded by one
\* before / after along the chosen axes
Smear(m, a0, a1) ==
  LET hh == H(m) + (IF a0 THEN 1 ELSE 0)
      ww == Wd(m) + (IF a1 THEN 1 ELSE 0)
      At(j, i) == j >= 1 /\ j <= H(m) /\ i >= 1 /\ i <= Wd(m) /\ m[j][i]
  IN [j \in 1..hh |-> [i \in 1..ww |->
        \E dj \in (IF a0 THEN {0, 1} ELSE {0}) : \E di \in (IF a1 THEN {0, 1} ELSE {0}) : At(j - dj, i - di)]]

\* Declarative: an Arakawa left edge <<j,i>> belongs to faces <<j,i-1>>, <<j,i>>; a back
\* edge <<j,i>> to faces <<j-1,i>>, <<j,i>>; a node <<j,i>> to the four faces around it
FacesOfLeft(c) == {<<c[1], c[2] - 1>>, <<c[1], c[2]>>}
FacesOfBack(c) == {<<c[1] - 1, c[2]>>, <<c[1], c[2]>>}
FacesOfNode(c) == {<<c[1] - 1, c[2] - 1>>, <<c[1] - 1, c[2]>>, <<c[1], c[2] - 1>>, <<c[1], c[2]>>}
Incidence(S, h, w, F(_)) == {c \in CellsOf(h, w) : F(c) \cap S # {}}

\* ------------------------------------------------------------------ meshes
\* faces: sequence of sequences of node indexes (0-based)
NodesOfFaces(faces, F) == UNION {{faces[f + 1][k] : k \in 1..Len(faces[f + 1])} : f \in F}
\* one ring: every face sharing a node with a marked face
BufferFaces(faces, F) ==
  {f \in 0..(Len(faces) - 1) : f \in F \/ NodesOfFaces(faces, {f}) \cap NodesOfFaces(faces, F) # {}}
RECURSIVE BufferN(_, _, _)
BufferN(faces, F, b) == IF b = 0 THEN F ELSE BufferN(faces, BufferFaces(faces, F), b - 1)

\* old -> new table of a kept set K over 0..(n-1): contiguous from 0, in the original order; -1 = dropped
Renumber(K, n) == [x \in 1..n |-> IF (x - 1) \in K THEN Cardinality({y \in K : y < x - 1}) ELSE -1]

\* a table t (sequence, -1 = dropped) renumbers its kept elements contiguously in their original order
RenumbersInOrder(t) ==
  LET kept == {x \in 1..Len(t) : t[x] >= 0}
  IN /\ {t[x] : x \in kept} = 0..(Cardinality(kept) - 1)
     /\ \A a, b \in kept : a < b => t[a] < t[b]

=============================================================================
