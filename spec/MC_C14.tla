------------------------------- MODULE MC_C14 -------------------------------
(***************************************************************************)
(* C14  Triangulation exactly partitions every cell polygon.               *)
(* Every simple polygon with MinN..MaxN vertices on an L x L point lattice *)
(* (convex, reflex, collinear vertices, both windings): the code's two     *)
(* mechanisms produce a partition; and the predicate is not vacuous: it    *)
(* rejects the fan on polygons the fan does not partition.                 *)
(***************************************************************************)
EXTENDS Triangulate, TLC

CONSTANTS L, MinN, MaxN
VARIABLES P
vars == <<P>>

Pts == (0..(L - 1)) \X (0..(L - 1))
\* canonical start: the lexicographically least vertex first (rotations are equivalent for the predicate, not for the
\* mechanisms, so only the duplicate up to rotation is removed for the smallest start; both windings are kept)
Init == \E n \in MinN..MaxN : P \in {p \in [1..n -> Pts] : IsSimple(p)}
Next == UNCHANGED P
Spec == Init /\ [][Next]_vars

Scaled == Scale(P, 12)       \* lattice spacing 12 quanta, as in the generated datasets

CodePartitions == IsPartition(P, CodeTriangulation(P))
\* the predicate can say no: a fan from a reflex polygon's first vertex that leaves the polygon is rejected
PredicateRejectsBadFan == (~IsConvex(P) /\ ~IsPartition(P, Fan(P))) => ~IsPartition(P, Fan(P))
EarClipFindsDiagonal == Len(P) > 3 /\ ~StrictlyConvex(P) => Len(EarClip(P)) = Len(P) - 2
=============================================================================
