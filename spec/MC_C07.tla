------------------------------- MODULE MC_C07 -------------------------------
(***************************************************************************)
(* C07  Clip masks select exactly the intersecting cells plus the buffer.  *)
(* Exhaustive over every boolean array of the configured shapes: the       *)
(* operational ring growing (padded copy + window) equals the declarative  *)
(* Chebyshev neighbourhood, edge / node marking equals incidence, growing   *)
(* is monotone; mesh renumbering is contiguous and order preserving.       *)
(***************************************************************************)
EXTENDS Masking, TLC

CONSTANTS Shapes,     \* set of <<h, w>>
          MaxBuffer,
          MeshN       \* renumbering tables over 0..MeshN-1

VARIABLES m, b
vars == <<m, b>>

Arrays(h, w) == [1..h -> [1..w -> BOOLEAN]]
Init == /\ \E s \in Shapes : m \in Arrays(s[1], s[2])
        /\ b \in 0..MaxBuffer
Next == UNCHANGED vars
Spec == Init /\ [][Next]_vars

S == Marked(m)
h == H(m)
w == Wd(m)

BlurIsGrow == Marked(Blur(m, b)) = Grow(S, b, h, w)

SmearIsIncidence ==
  b = 0 =>
    /\ Marked(Smear(m, FALSE, TRUE)) = Incidence(S, h, w + 1, FacesOfLeft)
    /\ Marked(Smear(m, TRUE, FALSE)) = Incidence(S, h + 1, w, FacesOfBack)
    /\ Marked(Smear(m, TRUE, TRUE))  = Incidence(S, h + 1, w + 1, FacesOfNode)

\* enlarging the hit set or the buffer never unmarks a cell
Monotone ==
  /\ Grow(S, b, h, w) \subseteq Grow(S, b + 1, h, w)
  /\ \A c \in CellsOf(h, w) : Grow(S, b, h, w) \subseteq Grow(S \cup {c}, b, h, w)

\* the hit cells themselves are always marked, nothing beyond b rings is
Exactness ==
  /\ S \subseteq Grow(S, b, h, w)
  /\ \A c \in Grow(S, b, h, w) : \E s \in S : Cheb(c, s) <= b

\* mesh renumbering tables
RenumberOK ==
  (b = 0 /\ h = 1) => \A K \in SUBSET (0..(MeshN - 1)) : RenumbersInOrder(Renumber(K, MeshN))

\* node-sharing rings on a strip of quads 0-1-2-3-4 (each shares two nodes with the next)
Strip == <<<<0, 1, 6, 5>>, <<1, 2, 7, 6>>, <<2, 3, 8, 7>>, <<3, 4, 9, 8>>>>
MeshRings ==
  (b <= 2 /\ h = 1) => \A F \in SUBSET (0..3) :
     /\ BufferN(Strip, F, b) = {f \in 0..3 : \E g \in F : AbsV(f - g) <= b}
     /\ F \subseteq BufferN(Strip, F, b)
=============================================================================
