------------------------------ MODULE Trace_C14 ------------------------------
(* Trace validation for C14: triangulate_dataset's output, cell by cell,     *)
(* against the result predicate Triangulate!IsPartition.                     *)
EXTENDS Cells, Triangulate, TLC, Json, IOUtils, TLCExt

Log == ndJsonDeserialize(IOEnv.TRACE_FILE)
VARIABLES t, l, fails, seen, polys
tvars == <<t, l, fails, seen, polys>>
Rec == Log[t]
Ev  == Log[t].events[l]
W0  == Log[t].w
PolysOf(ww) == [n \in 1..FaceCount(ww) |-> PolyAt(ww, n - 1)]
Ok(e) == "ok" \in DOMAIN e.obs

NV(o) == Len(o.vertices)
IdxOK(o) == \A k \in 1..Len(o.triangles) : \A m \in 1..3 : o.triangles[k][m] >= 0 /\ o.triangles[k][m] < NV(o)
TriCoords(o, k) == [m \in 1..3 |-> <<o.vertices[o.triangles[k][m] + 1][1], o.vertices[o.triangles[k][m] + 1][2]>>]
TrisOf(o, n) == LET ks == SelectSeq([k \in 1..Len(o.triangles) |-> k], LAMBDA k : o.cells[k] = n)
                IN [j \in 1..Len(ks) |-> TriCoords(o, ks[j])]

Names == {"Completed", "Shapes", "VertexIndexValid", "VerticesUnique", "CellIndexCorrect", "HolesProduceNothing",
          "PartitionPerCell", "ExactCoordinates", "DomainRepeatedVertex"}

\* domain marker (not a property clause): some cell ring repeats a vertex consecutively -- such rings come out of the
\* CF 2-D bounds synthesis next to missing cells; the runner uses the marker to recognise known finding F16
HasRepeat(Pg) == \E k \in 1..Len(Pg) : Pg[k] = Pg[Nxt(Pg, k)]

Holds(name, ww, e) ==
  LET o == e.obs.ok IN
  CASE name = "Completed" -> Ok(e)
    [] name = "DomainRepeatedVertex" -> \A n \in 1..Len(polys) : polys[n] = <<>> \/ ~HasRepeat(polys[n])
    [] name = "Shapes" -> Ok(e) => Len(o.cells) = Len(o.triangles)
    [] name = "VertexIndexValid" -> Ok(e) => IdxOK(o)
    [] name = "VerticesUnique" -> Ok(e) => \A a, b \in 1..NV(o) : a # b => o.vertices[a] # o.vertices[b]
    [] name = "ExactCoordinates" -> Ok(e) => \A a \in 1..NV(o) : o.vertices[a][1] # INEXACT /\ o.vertices[a][2] # INEXACT
    [] name = "CellIndexCorrect" ->
         Ok(e) => \A k \in 1..Len(o.cells) : o.cells[k] >= 0 /\ o.cells[k] < Len(polys)
    [] name = "HolesProduceNothing" ->
         Ok(e) => \A k \in 1..Len(o.cells) : (o.cells[k] >= 0 /\ o.cells[k] < Len(polys)) => polys[o.cells[k] + 1] # <<>>
    [] name = "PartitionPerCell" ->
         (Ok(e) /\ IdxOK(o) /\ Len(o.cells) = Len(o.triangles)) =>
            \A n \in 0..(Len(polys) - 1) :
               (polys[n + 1] # <<>> /\ ~Degenerate(RawPoly(ww, n))) => IsPartition(DedupRing(polys[n + 1]), TrisOf(o, n))

\* Meshes off the lattice (FreeTriangulate) are judged structurally: every triangle corner is a vertex index, every triangle
\* belongs to a face, and a face with s sides is covered by exactly s - 2 triangles
FreeStructure(e) ==
  LET o == e.obs.ok IN
  /\ Len(o.cells) = Len(o.triangles)
  /\ \A k \in 1..Len(o.triangles) : \A m \in 1..3 : o.triangles[k][m] >= 0 /\ o.triangles[k][m] < o.nv
  /\ \A k \in 1..Len(o.cells) : o.cells[k] >= 0 /\ o.cells[k] < Len(polys)
  /\ \A n \in 1..Len(polys) : polys[n] # <<>> => Cardinality({k \in 1..Len(o.cells) : o.cells[k] = n - 1}) = Len(polys[n]) - 2
Failing(ww, e) ==
  IF e.a = "FreeTriangulate"
  THEN (IF ~Ok(e) THEN {"Completed"} ELSE {}) \cup (IF Ok(e) /\ ~FreeStructure(e) THEN {"FreeStructure"} ELSE {})
  ELSE {name \in Names : ~Holds(name, ww, e)}
SeenOf(ww, e) == {e.a, ww.conv}
  \cup (IF \E n \in 1..Len(polys) : polys[n] = <<>> THEN {"holes"} ELSE {})
  \cup (IF \E n \in 1..Len(polys) : polys[n] # <<>> /\ ~IsConvex(polys[n]) THEN {"concave"} ELSE {})
  \cup (IF \E n \in 1..Len(polys) : polys[n] # <<>> /\ IsConvex(polys[n]) /\ ~StrictlyConvex(polys[n]) THEN {"collinear"} ELSE {})
  \cup (IF \E n \in 1..Len(polys) : polys[n] # <<>> /\ Area2(polys[n]) < 0 THEN {"clockwise"} ELSE {})
  \cup (IF \E n \in 1..Len(polys) : polys[n] # <<>> /\ Area2(polys[n]) > 0 THEN {"anticlockwise"} ELSE {})
  \cup {"sides-" \o ToString(Len(polys[n])) : n \in {n \in 1..Len(polys) : polys[n] # <<>>}}

Done == t > Len(Log)
TInit == /\ t = 1 /\ l = 1 /\ fails = {} /\ seen = {}
         /\ polys = IF Len(Log) > 0 THEN PolysOf(Log[1].w) ELSE <<>>
Step ==
  /\ ~Done
  /\ fails' = fails \cup {<<Rec.tid, l, name>> : name \in Failing(W0, Ev)}
  /\ seen' = seen \cup SeenOf(W0, Ev)
  /\ IF l < Len(Rec.events) THEN l' = l + 1 /\ t' = t /\ UNCHANGED polys
     ELSE /\ l' = 1 /\ t' = t + 1
          /\ polys' = IF t + 1 <= Len(Log) THEN PolysOf(Log[t + 1].w) ELSE <<>>
TSpec == TInit /\ [][Step]_tvars
Verdict == [records |-> Len(Log), fails |-> SetToSeq(fails), seen |-> SetToSeq(seen), missing |-> <<>>]
EmitVerdict == Done => JsonSerialize(IOEnv.VERDICT_FILE, Verdict)
=============================================================================
