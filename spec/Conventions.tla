---------------------------- MODULE Conventions ----------------------------
(***************************************************************************)
(* The five dataset conventions as far as grids and indexes are concerned. *)
(*                                                                         *)
(* A "world" w is the abstract dataset.  For index purposes it carries     *)
(*   conv  \in ConvNames                                                   *)
(*   ny,nx (structured conventions: size of the face grid)                 *)
(*   nface, nnode, nedge (UGRID; nedge = -1 when there is no edge grid)    *)
(* The shape of every grid kind is DERIVED here from those numbers, the    *)
(* concretiser builds the dataset from the same numbers, and the code's    *)
(* grid_shape / grid_size / wind_index / ravel_index are compared with     *)
(* the derivation.                                                         *)
(***************************************************************************)
EXTENDS Arrays

ConvNames == {"cf1d", "cf2d", "shoc_simple", "shoc_standard", "arakawa", "ugrid"}

IsCF(w)      == w.conv \in {"cf1d", "cf2d", "shoc_simple"}
IsArakawa(w) == w.conv \in {"shoc_standard", "arakawa"}
IsUGrid(w)   == w.conv = "ugrid"

HasEdges(w) == IsUGrid(w) /\ w.nedge >= 0

Kinds(w) ==
  IF IsCF(w) THEN {"face"}
  ELSE IF IsArakawa(w) THEN {"face", "left", "back", "node"}
  ELSE IF HasEdges(w) THEN {"face", "edge", "node"} ELSE {"face", "node"}

DefaultKind == "face"

\* Shape of each grid kind, in the order of the grid's dimensions.
KindShape(w, kind) ==
  IF IsCF(w) THEN <<w.ny, w.nx>>
  ELSE IF IsArakawa(w) THEN
    CASE kind = "face" -> <<w.ny, w.nx>>
      [] kind = "left" -> <<w.ny, w.nx + 1>>
      [] kind = "back" -> <<w.ny + 1, w.nx>>
      [] kind = "node" -> <<w.ny + 1, w.nx + 1>>
  ELSE
    CASE kind = "face" -> <<w.nface>>
      [] kind = "edge" -> <<w.nedge>>
      [] kind = "node" -> <<w.nnode>>

KindSize(w, kind) == ProdSeq(KindShape(w, kind))

\* Native index <-> (kind, per-dimension indexes).
\*   CF:        <<j, i>>
\*   Arakawa C: <<kind, j, i>>
\*   UGRID:     <<kind, n>>
Pack(w, kind, idx) == IF IsCF(w) THEN idx ELSE <<kind>> \o idx

UnpackKind(w, native) == IF IsCF(w) THEN "face" ELSE native[1]
UnpackIdx(w, native)  == IF IsCF(w) THEN native ELSE Tail(native)

\* The native index of linear index n on a grid kind; n must be in range.
WindIndex(w, kind, n) == Pack(w, kind, UnravelRM(KindShape(w, kind), n))

\* The linear index of a native index; it must be in range.
RavelIndex(w, native) ==
  RavelRM(KindShape(w, UnpackKind(w, native)), UnpackIdx(w, native))

LinearInRange(w, kind, n) == n >= 0 /\ n < KindSize(w, kind)

NativeInRange(w, native) ==
  /\ UnpackKind(w, native) \in Kinds(w)
  /\ InRange(KindShape(w, UnpackKind(w, native)), UnpackIdx(w, native))

\* Every native index of the world
AllNative(w) ==
  UNION {{Pack(w, k, idx) : idx \in Indices(KindShape(w, k))} : k \in Kinds(w)}

=============================================================================
