------------------------------- MODULE MC_C11 -------------------------------
(***************************************************************************)
(* C11  Convention detection and binding are deterministic and stable.     *)
(*                                                                         *)
(* State machine over datasets (objects), convention objects and the       *)
(* registry.  `hist` records the behaviour for replay against the real     *)
(* code (hidden from the fingerprint with a VIEW when model checking).     *)
(***************************************************************************)
EXTENDS Registry, TLC, Json

CONSTANTS Contents,      \* sequence of feature records
          MaxObjs, MaxConvs, Depth,
          EntryPoints,   \* sequence of built-in class names, in entry point order
          Extra,         \* set of registrable test classes
          ConstructClasses, \* classes constructed by hand in this configuration
          WithDerive        \* BOOLEAN: explore Derive (model checking) or leave it out (emission of behaviours for replay, where
                            \* derivations are the concrete Strip events of the vector cases)

VARIABLES registry,  \* Seq of registered class names
          content,   \* obj -> index into Contents (0 = object does not exist)
          bound,     \* obj -> conv id or 0
          cached,    \* obj -> conv id or 0   (xarray's accessor cache)
          convs,     \* Seq of [cls, obj]: constructed convention objects, id = position
          out,       \* result of the last action
          hist       \* Seq of actions taken
vars == <<registry, content, bound, cached, convs, out, hist>>
view == <<registry, content, bound, cached, convs, out>>

Objs == 1..MaxObjs
Live == {o \in Objs : content[o] # 0}
C(o) == Contents[content[o]]
Classes == Builtins \cup Extra

Init ==
  /\ registry = <<>>
  /\ content \in {f \in [Objs -> 0..Len(Contents)] : f[1] # 0 /\ \A o \in Objs : o > 1 => f[o] = 0}
  /\ bound = [o \in Objs |-> 0] /\ cached = [o \in Objs |-> 0]
  /\ convs = <<>> /\ out = [a |-> "init"] /\ hist = <<>>

Log(rec) == hist' = Append(hist, rec)

Register(k) ==
  /\ k \in Extra /\ Len(registry) < 2
  /\ registry' = Append(registry, k)
  /\ out' = [a |-> "Register", cls |-> k]
  /\ Log([a |-> "Register", cls |-> k])
  /\ UNCHANGED <<content, bound, cached, convs>>

\* get_dataset_convention(ds); k is the class chosen (the specification's choice is Best; the trace
\* specification passes the observed class when the property allows it)
DetectK(o, k) ==
  /\ o \in Live
  /\ out' = [a |-> "Detect", obj |-> o, cls |-> k]
  /\ Log([a |-> "Detect", obj |-> o])
  /\ UNCHANGED <<registry, content, bound, cached, convs>>
Detect(o) == o \in Live /\ DetectK(o, Best(C(o), registry, EntryPoints))

\* dataset.ems
AccessK(o, k) ==
  /\ o \in Live
  /\ Log([a |-> "Access", obj |-> o])
  /\ IF cached[o] # 0
     THEN /\ out' = [a |-> "Access", obj |-> o, conv |-> cached[o], cls |-> convs[cached[o]].cls]
          /\ UNCHANGED <<registry, content, bound, cached, convs>>
     ELSE IF bound[o] # 0
     THEN /\ cached' = [cached EXCEPT ![o] = bound[o]]
          /\ out' = [a |-> "Access", obj |-> o, conv |-> bound[o], cls |-> convs[bound[o]].cls]
          /\ UNCHANGED <<registry, content, bound, convs>>
     ELSE IF k = "None"
     THEN /\ out' = [a |-> "Access", obj |-> o, conv |-> 0, cls |-> "error"]       \* refused, nothing cached or bound
          /\ UNCHANGED <<registry, content, bound, cached, convs>>
     ELSE /\ Len(convs) < MaxConvs
          /\ convs' = Append(convs, [cls |-> k, obj |-> o])
          /\ bound' = [bound EXCEPT ![o] = Len(convs) + 1]
          /\ cached' = [cached EXCEPT ![o] = Len(convs) + 1]
          /\ out' = [a |-> "Access", obj |-> o, conv |-> Len(convs) + 1, cls |-> k]
          /\ UNCHANGED <<registry, content>>
Access(o) == o \in Live /\ AccessK(o, Best(C(o), registry, EntryPoints))

\* Cls(dataset): constructing does not bind
Construct(k, o) ==
  /\ o \in Live /\ Len(convs) < MaxConvs /\ k \in ConstructClasses
  /\ convs' = Append(convs, [cls |-> k, obj |-> o])
  /\ out' = [a |-> "Construct", obj |-> o, conv |-> Len(convs) + 1, cls |-> k]
  /\ Log([a |-> "Construct", obj |-> o, cls |-> k])
  /\ UNCHANGED <<registry, content, bound, cached>>

\* convention.bind(): refused when the dataset already has one
Bind(c) ==
  /\ c \in 1..Len(convs)
  /\ Log([a |-> "Bind", conv |-> c])
  /\ IF bound[convs[c].obj] # 0
     THEN /\ out' = [a |-> "Bind", conv |-> c, ok |-> FALSE]
          /\ UNCHANGED <<registry, content, bound, cached, convs>>
     ELSE /\ bound' = [bound EXCEPT ![convs[c].obj] = c]
          /\ out' = [a |-> "Bind", conv |-> c, ok |-> TRUE]
          /\ UNCHANGED <<registry, content, cached, convs>>

\* dataset.copy(): a fresh, unbound object with the same content
Copy(o) ==
  /\ o \in Live /\ \E n \in Objs : content[n] = 0
  /\ LET n == CHOOSE n \in Objs : content[n] = 0 /\ \A m \in Objs : content[m] = 0 => n <= m
     IN /\ content' = [content EXCEPT ![n] = content[o]]
        /\ out' = [a |-> "Copy", obj |-> o, new |-> n]
  /\ Log([a |-> "Copy", obj |-> o])
  /\ UNCHANGED <<registry, bound, cached, convs>>

\* a dataset DERIVED from o (a copy with an attribute or a variable removed, ...): a fresh, unbound object whose content c2
\* may differ from o's - what is detected for it depends on ITS content alone
Derive(o, c2) ==
  /\ o \in Live /\ c2 \in 1..Len(Contents) /\ \E n \in Objs : content[n] = 0
  /\ LET n == CHOOSE n \in Objs : content[n] = 0 /\ \A m \in Objs : content[m] = 0 => n <= m
     IN /\ content' = [content EXCEPT ![n] = c2]
        /\ out' = [a |-> "Derive", obj |-> o, new |-> n]
  /\ Log([a |-> "Derive", obj |-> o, content |-> c2])
  /\ UNCHANGED <<registry, bound, cached, convs>>

Next ==
  /\ Len(hist) < Depth
  /\ \/ \E k \in Extra : Register(k)
     \/ \E o \in Objs : Detect(o) \/ Access(o) \/ Copy(o)
     \/ WithDerive /\ \E o \in Objs : \E c2 \in 1..Len(Contents) : c2 # content[o] /\ Derive(o, c2)
     \/ \E o \in Objs : \E k \in Classes : Construct(k, o)
     \/ \E c \in 1..MaxConvs : Bind(c)
Spec == Init /\ [][Next]_vars

\* ---------------------------------------------------------------- properties
\* detection is a function of content (and the registry): two live objects with equal content get the same class
DetectIsFunctionOfContent ==
  \A a, b \in Live : content[a] = content[b] =>
     Best(C(a), registry, EntryPoints) = Best(C(b), registry, EntryPoints)
HighestSpecificityWins ==
  \A o \in Live : LET k == Best(C(o), registry, EntryPoints) IN
     k # "None" => \A j \in ToSet(Ordered(registry, EntryPoints)) : Check(C(o), j) <= Check(C(o), k)
ManualWinsTies ==
  \A o \in Live : LET k == Best(C(o), registry, EntryPoints) IN
     (k # "None" /\ \E r \in ToSet(registry) : Check(C(o), r) = Check(C(o), k)) => k \in ToSet(registry)
NothingMatchesRefused ==
  \A o \in Live : (\A k \in ToSet(Ordered(registry, EntryPoints)) : Check(C(o), k) = 0) <=> Best(C(o), registry, EntryPoints) = "None"
BestIsAllowed == \A o \in Live : Best(C(o), registry, EntryPoints) \in Allowed(C(o), registry, EntryPoints)

CachedIsBound == \A o \in Live : cached[o] # 0 => cached[o] = bound[o]
BoundBelongs == \A o \in Live : bound[o] # 0 => convs[bound[o]].obj = o
AccessReturnsBound ==
  (out.a = "Access" /\ out.conv # 0) => out.conv = bound[out.obj] /\ convs[out.conv].obj = out.obj
\* once attached, every later access returns that same object / a second attachment is refused / copies start unbound
BoundStable == [][\A o \in Objs : bound[o] # 0 => bound'[o] = bound[o]]_vars
SecondBindRefused == [][\A c \in 1..Len(convs) : (hist' # hist /\ out'.a = "Bind" /\ out'.conv = c /\ bound[convs[c].obj] # 0) => ~out'.ok]_vars
CopiesStartUnbound == [][\A n \in Objs : (content[n] = 0 /\ content'[n] # 0) => (bound'[n] = 0 /\ cached'[n] = 0)]_vars
CopiesIndependent == [][\A o \in Objs : (content[o] # 0 /\ out'.a \in {"Copy", "Derive"}) => bound'[o] = bound[o] /\ cached'[o] = cached[o]]_vars

\* ---------------------------------------------------------------- emission (Gen configuration)
Emit == (Len(hist) = Depth \/ ~ENABLED Next) => PrintT(<<"CASE", ToJson([init |-> content, hist |-> hist])>>)
=============================================================================
