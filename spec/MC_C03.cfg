SPECIFICATION Spec
CONSTANTS
  Grids <- QuickGrids
  Extras <- QuickExtras
  Depth = 3
INVARIANT WellFormed
INVARIANT ValuesKeepAddress
INVARIANT ValuesOnlyMoved
INVARIANT LayoutAfterRavel
INVARIANT GridDimsInConventionOrder
INVARIANT WindAfterRavelDims
INVARIANT RavelAfterWindIdentity
INVARIANT NoGridRefused
INVARIANT PartialGridRefused
CHECK_DEADLOCK FALSE
