SPECIFICATION Spec
CHECK_DEADLOCK FALSE
INVARIANT SelectedKept
INVARIANT UnselectedBlank
INVARIANT UnmaskableCroppedOnly
INVARIANT NonSpatialUntouched
INVARIANT NothingLeaks
INVARIANT CropIsTight
INVARIANT ReloadTransparent
