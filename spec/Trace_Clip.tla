------------------------------ MODULE Trace_Clip ------------------------------
(***************************************************************************)
(* Trace validation for C08 (values) and C09 (geometry / topology) of      *)
(* clipping.  A record is a history on one geometry: make mask, save and   *)
(* reload it, apply it to object 1 or to object 2 (same geometry, data     *)
(* shifted by `off`), clip in one step, save + reopen the result, select   *)
(* variables.  `sel` is the specification's current face selection.        *)
(***************************************************************************)
EXTENDS Clip, Mesh, TLC, Json, IOUtils, TLCExt

Log == ndJsonDeserialize(IOEnv.TRACE_FILE)
VARIABLES t, l, fails, seen, polys, sel
tvars == <<t, l, fails, seen, polys, sel>>
Rec == Log[t]
Ev  == Log[t].events[l]
W0  == Log[t].w

PolysOf(ww) == [n \in 1..FaceCount(ww) |-> PolyAt(ww, n - 1)]
Ok(e) == "ok" \in DOMAIN e.obs
Is(e, a) == e.a = a /\ Ok(e)

HitG(g) == {n \in 0..(Len(polys) - 1) : polys[n + 1] # <<>> /\ GeomMeetsPoly(g, polys[n + 1])}
SpecSelection(ww, g, b) ==
  IF IsUGrid(ww) THEN BufferN(ww.mesh.faces, HitG(g), b)
  ELSE LET cells == Grow({CellOf(ww, "face", n) : n \in HitG(g)}, b, ww.ny, ww.nx)
       IN {RavelRM(<<ww.ny, ww.nx>>, <<c[1], c[2]>>) : c \in cells}

EdgePairs(faces, f) == {{faces[f + 1][k], faces[f + 1][(k % Len(faces[f + 1])) + 1]} : k \in 1..Len(faces[f + 1])}
EdgesOfFaces(ww, F) == {x - 1 : x \in {x \in 1..Len(ww.mesh.en) :
                           \E f \in F : {ww.mesh.en[x][1], ww.mesh.en[x][2]} \in EdgePairs(ww.mesh.faces, f)}}
MeshMasks(ww, F) == [face |-> F, node |-> NodesOfFaces(ww.mesh.faces, F),
                     edge |-> IF ww.nedge >= 0 THEN EdgesOfFaces(ww, F) ELSE {}]

KeptIdx(tbl) == {x - 1 : x \in {x \in 1..Len(tbl) : tbl[x] >= 0}}
ObsVar(vs, nm) == vs[CHOOSE k \in 1..Len(vs) : vs[k].name = nm]
HasVar(vs, nm) == \E k \in 1..Len(vs) : vs[k].name = nm
DataVars(ww) == {i \in 1..Len(ww.vars) : ~ww.vars[i].geometry}

Expected(ww, v, off) ==
  IF IsUGrid(ww) THEN ApplyMeshVar(ww, v, MeshMasks(ww, sel), off) ELSE ApplyGridVar(ww, v, sel, off)

\* result face r (0-based) -> original face
OrigFace(ww, r) == IF IsUGrid(ww) THEN KeptSeq(sel, ww.nface)[r + 1] ELSE OrigOfResult(ww, sel, r)
ResultFaces(ww) == IF IsUGrid(ww) THEN Cardinality(sel) ELSE ResultFaceCount(ww, sel)

ExplicitGeometry(ww) ==
  IsUGrid(ww) \/ IsArakawa(ww) \/ (HasField(ww.geom, "xb"))

Sup(ww, nm) == \E k \in 1..Len(ww.supplied) : ww.supplied[k] = nm
OkT(o, nm) == "ok" \in DOMAIN o.tables[nm]
Tab(o, nm) == o.tables[nm].ok

ValueEvents == {"Apply", "Clip", "SaveReopen"}

ClauseNames == {"Completed", "MaskMatches", "ReloadSame",
                "ValuesExact", "SelectedKept", "UnselectedBlank", "UnmaskableUnaltered", "NonSpatialUntouched",
                "CoordsAttrsUnchanged", "DtypeKept",
                "SameConvention", "GeometryPreserved", "MeshTablesReindexed", "MeshConsistent", "MetaKept",
                "SubsetKeepsGeometry"}

Clause(name, ww, e) ==
  CASE name = "Completed" -> Ok(e) \/ (e.a \in ValueEvents /\ sel = {})      \* nothing selected: may be refused
    [] name = "MaskMatches" ->
         Is(e, "MakeMask") =>
            (IF IsUGrid(ww) THEN KeptIdx(e.obs.ok.face) ELSE
                {RavelRM(<<ww.ny, ww.nx>>, <<c[1], c[2]>>) : c \in Marked(e.obs.ok.face)}) = SpecSelection(ww, e.geom, e.buffer)
    [] name = "ReloadSame" ->
         Is(e, "ReloadMask") =>
            (IF IsUGrid(ww) THEN KeptIdx(e.obs.ok.face) ELSE
                {RavelRM(<<ww.ny, ww.nx>>, <<c[1], c[2]>>) : c \in Marked(e.obs.ok.face)}) = sel
    \* ---------------------------------------------------------------- C08
    [] name = "ValuesExact" ->
         (Ok(e) /\ e.a \in ValueEvents /\ sel # {}) =>
            \A i \in DataVars(ww) :
               /\ HasVar(e.obs.ok.vars, ww.vars[i].name)
               /\ LET o == ObsVar(e.obs.ok.vars, ww.vars[i].name)  x == Expected(ww, ww.vars[i], e.off)
                  IN o.dims = x.dims /\ o.shape = x.shape /\ o.data = x.data
    [] name = "SelectedKept" ->
         \* declarative: every selected cell is present with every value unchanged, in the original relative order
         (Ok(e) /\ e.a \in ValueEvents /\ sel # {}) =>
            \A i \in DataVars(ww) :
               LET v == ww.vars[i] IN
               (OnGrid(v) /\ v.kind = "face" /\ HasVar(e.obs.ok.vars, v.name)) =>
                  LET o == ObsVar(e.obs.ok.vars, v.name) IN
                  /\ o.dims = v.dims /\ WellFormedArray(o) /\ o.shape = Expected(ww, v, e.off).shape
                  /\ \A r \in 0..(ResultFaces(ww) - 1) :
                        OrigFace(ww, r) \in sel =>
                           \A ex \in Indices(OtherShape(v)) :
                              LET g == IF IsUGrid(ww) THEN <<r>> ELSE UnravelRM(<<Hi(ww, "face", sel, 1) - Lo(ww, "face", sel, 1) + 1,
                                                                                  Hi(ww, "face", sel, 2) - Lo(ww, "face", sel, 2) + 1>>, r)
                                  stored == Tag(ww, v, ex, OrigFace(ww, r))
                              IN At(o, FullIdx(v, ex, g)) = (IF stored = MISSING THEN MISSING ELSE stored + e.off)
    [] name = "UnselectedBlank" ->
         (Ok(e) /\ e.a \in ValueEvents /\ sel # {} /\ ~IsUGrid(ww)) =>
            \A i \in DataVars(ww) :
               LET v == ww.vars[i] IN
               (OnGrid(v) /\ v.kind = "face" /\ Maskable(v) /\ HasVar(e.obs.ok.vars, v.name)) =>
                  LET o == ObsVar(e.obs.ok.vars, v.name) IN
                  /\ o.dims = v.dims /\ WellFormedArray(o) /\ o.shape = Expected(ww, v, e.off).shape
                  /\ \A r \in 0..(ResultFaces(ww) - 1) :
                        OrigFace(ww, r) \notin sel =>
                           \A ex \in Indices(OtherShape(v)) :
                              At(o, FullIdx(v, ex, UnravelRM(<<Hi(ww, "face", sel, 1) - Lo(ww, "face", sel, 1) + 1,
                                                               Hi(ww, "face", sel, 2) - Lo(ww, "face", sel, 2) + 1>>, r))) = MISSING
    [] name = "UnmaskableUnaltered" ->
         (Ok(e) /\ e.a \in ValueEvents /\ sel # {}) =>
            \A i \in DataVars(ww) :
               (~Maskable(ww.vars[i]) /\ HasVar(e.obs.ok.vars, ww.vars[i].name)) =>
                  \A p \in 1..Len(ObsVar(e.obs.ok.vars, ww.vars[i].name).data) :
                     ObsVar(e.obs.ok.vars, ww.vars[i].name).data[p] # MISSING
    [] name = "NonSpatialUntouched" ->
         (Ok(e) /\ e.a \in ValueEvents /\ sel # {}) =>
            \A i \in DataVars(ww) :
               (ww.vars[i].kind = "" /\ HasVar(e.obs.ok.vars, ww.vars[i].name)) =>
                  LET o == ObsVar(e.obs.ok.vars, ww.vars[i].name)  v == ww.vars[i]
                  IN o.dims = v.dims /\ o.shape = v.shape
                     /\ o.data = [p \in 1..ProdSeq(v.shape) |-> VarAtIdx(v, UnravelRM(v.shape, p - 1)) + e.off]
    [] name = "CoordsAttrsUnchanged" ->
         (Ok(e) /\ e.a \in {"Apply", "Clip"} /\ sel # {}) =>
            /\ e.obs.ok.coords = e.incoords
            /\ e.obs.ok.attrs = e.inattrs
            /\ e.obs.ok.varattrs = e.invarattrs
    [] name = "DtypeKept" ->
         (Ok(e) /\ e.a \in {"Apply", "Clip"} /\ sel # {}) =>
            \A i \in DataVars(ww) :
               (ww.vars[i].fillkind # "attr" /\ HasVar(e.obs.ok.vars, ww.vars[i].name)) =>
                  ObsVar(e.obs.ok.vars, ww.vars[i].name).dtype = ww.vars[i].dtype
    \* ---------------------------------------------------------------- C09
    [] name = "SameConvention" ->
         (Ok(e) /\ e.a \in {"Apply", "Clip", "SaveReopen", "SelectVariables"}) => e.obs.ok.conv = ww.convclass
    [] name = "GeometryPreserved" ->
         (Ok(e) /\ e.a \in ValueEvents /\ sel # {} /\ ExplicitGeometry(ww)) =>
            /\ "ok" \in DOMAIN e.obs.ok.polys
            /\ Len(e.obs.ok.polys.ok) = ResultFaces(ww)
            /\ \A r \in 0..(ResultFaces(ww) - 1) :
                 \/ Degenerate(RawPoly(ww, OrigFace(ww, r)))
                 \/ /\ (OrigFace(ww, r) \in sel => SameRing(e.obs.ok.polys.ok[r + 1], polys[OrigFace(ww, r) + 1]))
                    /\ (e.obs.ok.polys.ok[r + 1] = <<>> \/ SameRing(e.obs.ok.polys.ok[r + 1], polys[OrigFace(ww, r) + 1]))
    [] name = "MeshTablesReindexed" ->
         (Ok(e) /\ e.a \in ValueEvents /\ sel # {} /\ IsUGrid(ww)) =>
            LET mk == MeshMasks(ww, sel) IN
            /\ OkT(e.obs.ok, "fn") /\ SameRows(Tab(e.obs.ok, "fn"), Reindex(ww.mesh.fn, mk.face, mk.node))
            /\ (Sup(ww, "en") => (e.obs.ok.has.en /\ OkT(e.obs.ok, "en") /\ SameRows(Tab(e.obs.ok, "en"), Reindex(ww.mesh.en, mk.edge, mk.node))))
            /\ ((Sup(ww, "fe") /\ Sup(ww, "en")) => (e.obs.ok.has.fe /\ OkT(e.obs.ok, "fe") /\ SameRows(Tab(e.obs.ok, "fe"), Reindex(ww.mesh.fe, mk.face, mk.edge))))
            /\ ((Sup(ww, "ef") /\ Sup(ww, "en")) => (e.obs.ok.has.ef /\ OkT(e.obs.ok, "ef") /\ SameRows(Tab(e.obs.ok, "ef"), Reindex(ww.mesh.ef, mk.edge, mk.face))))
            /\ (Sup(ww, "ff") => (e.obs.ok.has.ff /\ OkT(e.obs.ok, "ff") /\ SameRows(Tab(e.obs.ok, "ff"), Reindex(ww.mesh.ff, mk.face, mk.face))))
    [] name = "MeshConsistent" ->
         (Ok(e) /\ e.a \in ValueEvents /\ sel # {} /\ IsUGrid(ww) /\ OkT(e.obs.ok, "fn")) =>
            LET o == e.obs.ok IN
            /\ ValidMesh(Tab(o, "fn"))
            \* (face adjacency is derived through the edges: with face-edge / edge-face supplied but no edge-node the edge
            \*  numbering has no defined reading, unless face-face itself is supplied)
            /\ ((OkT(o, "ff") /\ (Sup(ww, "ff") \/ Sup(ww, "en") \/ (~Sup(ww, "fe") /\ ~Sup(ww, "ef")))) =>
                    FaceFaceSymmetricEdgeSharing(Tab(o, "fn"), Tab(o, "ff")))
            /\ ((ww.nedge >= 0 /\ (Sup(ww, "en") \/ (~Sup(ww, "fe") /\ ~Sup(ww, "ef"))) /\ OkT(o, "en") /\ OkT(o, "fe") /\ OkT(o, "ef")) =>
                  /\ IsEdgeNodeFor(Tab(o, "fn"), Tab(o, "en"))
                  /\ FaceEdgesAreConsecutivePairs(Tab(o, "fn"), Tab(o, "en"), Tab(o, "fe"))
                  /\ EdgeFacesExactlyContaining(Tab(o, "fn"), Tab(o, "en"), Tab(o, "ef")))
    [] name = "MetaKept" ->
         (Is(e, "SaveReopen") /\ IsUGrid(ww)) => e.obs.ok.meta = e.inmeta
    [] name = "SubsetKeepsGeometry" ->
         Is(e, "SelectVariables") =>
            /\ Len(e.obs.ok.polys) = Len(polys)
            /\ \A n \in 1..Len(polys) : Degenerate(RawPoly(ww, n - 1)) \/ SameRing(e.obs.ok.polys[n], polys[n])
            /\ {e.names[k] : k \in 1..Len(e.names)} \subseteq {e.obs.ok.names[k] : k \in 1..Len(e.obs.ok.names)}
            /\ \A i \in DataVars(ww) :
                 (\A k \in 1..Len(e.names) : e.names[k] # ww.vars[i].name) =>
                     \A k \in 1..Len(e.obs.ok.names) : e.obs.ok.names[k] # ww.vars[i].name

Failing(ww, e) == {name \in ClauseNames : ~Clause(name, ww, e)}

SeenOf(ww, e) ==
  {e.a, ww.conv}
  \cup (IF e.a \in {"Apply", "Clip"} THEN {"via-" \o e.via, "obj-" \o ToString(e.obj)} ELSE {})
  \cup (IF e.a \in ValueEvents /\ sel # {} /\ ~IsUGrid(ww) /\ Cardinality(sel) < ResultFaces(ww) THEN {"unselected-in-crop"} ELSE {})
  \cup (IF e.a \in ValueEvents /\ sel # {} /\ Cardinality(sel) < FaceCount(ww) THEN {"something-dropped"} ELSE {})
  \cup {"fill-" \o ww.vars[i].fillkind : i \in DataVars(ww)}
  \cup {"kind-" \o ww.vars[i].kind : i \in {i \in DataVars(ww) : ww.vars[i].kind # ""}}
  \cup (IF IsUGrid(ww) THEN {"sup-" \o ww.supplied[k] : k \in 1..Len(ww.supplied)} \cup {"base-" \o ToString(ww.base)} ELSE {})
  \cup (IF ~IsUGrid(ww) THEN {"coords-" \o ww.coords_as} ELSE {})

Done == t > Len(Log)
TInit == /\ t = 1 /\ l = 1 /\ fails = {} /\ seen = {} /\ sel = {}
         /\ polys = IF Len(Log) > 0 THEN PolysOf(Log[1].w) ELSE <<>>
Advance ==
  IF l < Len(Rec.events) THEN l' = l + 1 /\ t' = t /\ UNCHANGED polys
  ELSE /\ l' = 1 /\ t' = t + 1
       /\ polys' = IF t + 1 <= Len(Log) THEN PolysOf(Log[t + 1].w) ELSE <<>>
Step ==
  /\ ~Done
  /\ fails' = fails \cup {<<Rec.tid, l, name>> : name \in Failing(W0, Ev)}
  /\ seen' = seen \cup SeenOf(W0, Ev)
  /\ sel' = IF l = Len(Rec.events) THEN {}
            ELSE IF Ev.a \in {"MakeMask", "Clip"} THEN SpecSelection(W0, Ev.geom, Ev.buffer) ELSE sel
  /\ Advance
TSpec == TInit /\ [][Step]_tvars
Verdict == [records |-> Len(Log), fails |-> SetToSeq(fails), seen |-> SetToSeq(seen), missing |-> <<>>]
EmitVerdict == Done => JsonSerialize(IOEnv.VERDICT_FILE, Verdict)
=============================================================================
