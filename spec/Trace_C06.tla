------------------------------ MODULE Trace_C06 ------------------------------
(* Trace validation for C06: recorded polygons / mask / bounds / geometry of  *)
(* the implementation against Geometry.tla for the recorded abstract world.   *)
EXTENDS Geometry, TLC, Json, IOUtils, TLCExt

Log == ndJsonDeserialize(IOEnv.TRACE_FILE)

VARIABLES t, l, fails, seen
tvars == <<t, l, fails, seen>>
Rec == Log[t]
Ev  == Log[t].events[l]
W0  == Log[t].w

Faces(ww) == 0..(FaceCount(ww) - 1)
DegenerateCells(ww) == {n \in Faces(ww) : Degenerate(RawPoly(ww, n))}
Clean(ww) == DegenerateCells(ww) = {}

Ok(e) == "ok" \in DOMAIN e.obs
Is(e, a) == e.a = a /\ Ok(e)

ClauseNames == {"Completed", "PolygonsFaithful", "MaskAgrees", "InvalidWarned", "MissingCoordinatesNoPolygon",
                "ExactCoordinates", "BoundsIsBBox", "GeometryArea", "GeometryBBox", "GeometryMembership",
                "Shape"}

HasInexact(P) == \E k \in 1..Len(P) : P[k][1] = INEXACT \/ P[k][2] = INEXACT

Clause(name, ww, e) ==
  CASE name = "Completed" -> Ok(e)
    [] name = "Shape" ->
         Is(e, "Polygons") => (Len(e.obs.ok.polys) = FaceCount(ww) /\ Len(e.obs.ok.mask) = FaceCount(ww))
    [] name = "ExactCoordinates" ->
         Is(e, "Polygons") => \A n \in 1..Len(e.obs.ok.polys) : ~HasInexact(e.obs.ok.polys[n])
    [] name = "PolygonsFaithful" ->
         (Is(e, "Polygons") /\ Len(e.obs.ok.polys) = FaceCount(ww)) =>
            \A n \in Faces(ww) \ DegenerateCells(ww) : SameRing(e.obs.ok.polys[n + 1], PolyAt(ww, n))
    [] name = "MaskAgrees" ->
         (Is(e, "Polygons") /\ Len(e.obs.ok.mask) = FaceCount(ww) /\ Len(e.obs.ok.polys) = FaceCount(ww)) =>
            /\ \A n \in Faces(ww) \ DegenerateCells(ww) : e.obs.ok.mask[n + 1] = MaskAt(ww, n)
            /\ \A n \in Faces(ww) : e.obs.ok.mask[n + 1] = (e.obs.ok.polys[n + 1] # <<>>)
    [] name = "InvalidWarned" ->
         \* (the polygons are computed once per convention object: a repeated question is answered from the cache, silently)
         (Is(e, "Polygons") /\ Clean(ww) /\ "again" \notin DOMAIN e) => (e.obs.ok.warned = (InvalidCells(ww) # {}))
    [] name = "MissingCoordinatesNoPolygon" ->
         (Is(e, "Polygons") /\ ww.conv \in {"cf2d", "shoc_simple"} /\ Len(e.obs.ok.polys) = FaceCount(ww)) =>
            \A n \in Faces(ww) :
               LET ji == UnravelRM(<<ww.ny, ww.nx>>, n)
               IN (ww.geom.xc[ji[1] + 1][ji[2] + 1] = NANQ \/ ww.geom.yc[ji[1] + 1][ji[2] + 1] = NANQ)
                     => (e.obs.ok.polys[n + 1] = <<>> /\ ~e.obs.ok.mask[n + 1])
    [] name = "BoundsIsBBox" ->
         (Is(e, "Bounds") /\ Clean(ww) /\ ValidCells(ww) # {} /\ InvalidCells(ww) = {}) => e.obs.ok = ExtentBBox(ww)
    [] name = "GeometryArea" ->
         (Is(e, "Geometry") /\ Clean(ww) /\ ValidCells(ww) # {}) => e.obs.ok.area2 = ExtentArea2(ww)
    [] name = "GeometryBBox" ->
         (Is(e, "Geometry") /\ Clean(ww) /\ ValidCells(ww) # {}) => e.obs.ok.bbox = ExtentBBox(ww)
    [] name = "GeometryMembership" ->
         (Is(e, "Geometry") /\ Clean(ww) /\ ValidCells(ww) # {}) =>
            \A k \in 1..Len(e.obs.ok.samples) :
               LET s == e.obs.ok.samples[k] IN s[3] = InExtent(ww, <<s[1], s[2]>>)

Failing(ww, e) == {name \in ClauseNames : ~Clause(name, ww, e)}

SeenOf(ww, e) == IF ~Ok(e) THEN {"error"} ELSE {e.a, ww.conv}
  \cup (IF \E n \in Faces(ww) : RawPoly(ww, n) = <<>> THEN {"holes"} ELSE {})
  \cup (IF InvalidCells(ww) # {} THEN {"invalid-cell"} ELSE {})
  \cup (IF ~Clean(ww) THEN {"degenerate-skipped"} ELSE {})
  \cup (IF ww.conv = "cf1d" /\ ~HasField(ww.geom, "xb") THEN {"cf1d-derived-bounds"} ELSE {})
  \cup (IF ww.conv = "cf1d" /\ HasField(ww.geom, "xb") THEN {"cf1d-stored-bounds"} ELSE {})
  \cup (IF ww.conv \in {"cf2d", "shoc_simple"} /\ ~HasField(ww.geom, "xb") THEN {"cf2d-derived-bounds"} ELSE {})
  \cup (IF ww.conv \in {"cf2d", "shoc_simple"} /\ HasField(ww.geom, "xb") THEN {"cf2d-stored-bounds"} ELSE {})
  \cup (IF IsUGrid(ww) /\ \E f \in 1..Len(ww.mesh.faces) : Len(ww.mesh.faces[f]) = 3 THEN {"triangle"} ELSE {})
  \cup (IF IsUGrid(ww) /\ \E f \in 1..Len(ww.mesh.faces) : Len(ww.mesh.faces[f]) > 4 THEN {"big-face"} ELSE {})
  \cup (IF Is(e, "Geometry") /\ \E k \in 1..Len(e.obs.ok.samples) : e.obs.ok.samples[k][3] THEN {"sample-inside"} ELSE {})
  \cup (IF Is(e, "Geometry") /\ \E k \in 1..Len(e.obs.ok.samples) : ~e.obs.ok.samples[k][3] THEN {"sample-outside"} ELSE {})

Done == t > Len(Log)
TInit == t = 1 /\ l = 1 /\ fails = {} /\ seen = {}
Advance == IF l < Len(Rec.events) THEN l' = l + 1 /\ t' = t ELSE l' = 1 /\ t' = t + 1
Step ==
  /\ ~Done
  /\ fails' = fails \cup {<<Rec.tid, l, name>> : name \in Failing(W0, Ev)}
  /\ seen' = seen \cup SeenOf(W0, Ev)
  /\ Advance
TSpec == TInit /\ [][Step]_tvars

Required == {"Polygons", "Bounds", "Geometry", "holes", "invalid-cell", "cf1d-derived-bounds", "cf1d-stored-bounds",
             "cf2d-derived-bounds", "cf2d-stored-bounds", "triangle", "big-face", "sample-inside", "sample-outside",
             "cf1d", "cf2d", "shoc_simple", "shoc_standard", "arakawa", "ugrid"}
Verdict == [records |-> Len(Log), fails |-> SetToSeq(fails), seen |-> SetToSeq(seen),
            missing |-> SetToSeq(Required \ seen)]
EmitVerdict == Done => JsonSerialize(IOEnv.VERDICT_FILE, Verdict)
=============================================================================
