
