------------------------------- MODULE Cells -------------------------------
(***************************************************************************)
(* One abstract function from linear index to cell, and every accessor as  *)
(* a view of it: polygons, centres, flattened data, index selection,       *)
(* spatial-index hits, point lookup, multi-index / multi-point selection.  *)
(*                                                                         *)
(* Data variables of a world: w.vars[k] =                                  *)
(*   [name, kind ("" = not on a grid), dims (names, in storage order),     *)
(*    shape, gridpos (for each grid dimension of the kind its 1-based      *)
(*    position in dims, 0 if absent), base, missing (set of 0-based flat   *)
(*    positions holding a missing value), geometry (BOOLEAN)]              *)
(* The value stored at flat position p is the tag base + p, or MISSING.    *)
(***************************************************************************)
EXTENDS Geometry

MISSING == -1

VarByName(w, nm) == CHOOSE k \in 1..Len(w.vars) : w.vars[k].name = nm

\* value of variable v at an index tuple in v's own dimension order
VarAtIdx(v, idx) ==
  LET p == RavelRM(v.shape, idx)
  IN IF \E m \in 1..Len(v.missing) : v.missing[m] = p THEN MISSING ELSE v.base + p

\* the grid dimensions present in v, and the others
IsGridPos(v, p) == \E g \in 1..Len(v.gridpos) : v.gridpos[g] = p
OtherPos(v) == SelectSeq([p \in 1..Len(v.dims) |-> p], LAMBDA p : ~IsGridPos(v, p))
OnGrid(v) == v.kind # "" /\ \A g \in 1..Len(v.gridpos) : v.gridpos[g] > 0

\* index tuple of v from an extra-index e (sequence aligned with OtherPos(v))
\* and per-grid-dimension indexes gidx
FullIdx(v, e, gidx) ==
  [p \in 1..Len(v.dims) |->
     IF IsGridPos(v, p) THEN gidx[CHOOSE g \in 1..Len(v.gridpos) : v.gridpos[g] = p]
     ELSE e[CHOOSE m \in 1..Len(OtherPos(v)) : OtherPos(v)[m] = p]]

OtherShape(v) == [m \in 1..Len(OtherPos(v)) |-> v.shape[OtherPos(v)[m]]]
OtherNames(v) == [m \in 1..Len(OtherPos(v)) |-> v.dims[OtherPos(v)[m]]]

\* Tag(v, e, n): the stored value of v at extra-index e and cell n of v's grid
Tag(w, v, e, n) == VarAtIdx(v, FullIdx(v, e, UnravelRM(KindShape(w, v.kind), n)))

\* The dataset may be modified in place between calls (dataset[name] = dataset[name] + off): `Shift` is the stored
\* value after such a modification
Shift(x, off) == IF x = MISSING THEN MISSING ELSE x + off

\* -------------------------------------------------------------- ravel view
\* expected result of convention.ravel(v): other dims in order, then the
\* linear dimension; data in C order
RavelView(w, v) ==
  LET os == OtherShape(v)
      N == KindSize(w, v.kind)
      E == ProdSeq(os)
  IN [dims  |-> OtherNames(v),          \* plus the linear dimension, whose name is free here
      shape |-> os \o <<N>>,
      data  |-> [p \in 1..(E * N) |-> Tag(w, v, UnravelRM(os, (p - 1) \div N), (p - 1) % N)]]

\* ------------------------------------------------------- selection by index
\* select_index(native): every variable on that grid kind, the grid dims gone
SelectView(w, v, n) ==
  LET os == OtherShape(v)
  IN [dims |-> OtherNames(v), shape |-> os,
      data |-> [p \in 1..ProdSeq(os) |-> Tag(w, v, UnravelRM(os, p - 1), n)]]

FirstGridPos(v) == CHOOSE p \in 1..Len(v.dims) : IsGridPos(v, p) /\ \A q \in 1..(p - 1) : ~IsGridPos(v, q)

\* select_indexes(<<n1..nk>>, dim) / select_points: an array `obs` is a correct
\* answer for variable v iff it has exactly v's other dimensions (intact, in
\* order) plus the request dimension, and its element at (e, k) is the value
\* stored at extra-index e of cell ns[k].  The POSITION of the request
\* dimension is left free (the property does not fix it).
SelectManyOKOff(w, v, ns, dimname, obs, off) ==
  /\ WellFormedArray(obs)
  /\ Len(obs.dims) = Len(OtherNames(v)) + 1
  /\ dimname \in Range1(obs.dims)
  /\ SelectSeq(obs.dims, LAMBDA d : d # dimname) = OtherNames(v)
  /\ LET q == PosOf(obs.dims, dimname)
     IN /\ obs.shape[q] = Len(ns)
        /\ SubSeq(obs.shape, 1, q - 1) \o SubSeq(obs.shape, q + 1, Len(obs.shape)) = OtherShape(v)
        /\ \A p \in 1..Len(obs.data) :
              LET idx == UnravelRM(obs.shape, p - 1)
                  e == SubSeq(idx, 1, q - 1) \o SubSeq(idx, q + 1, Len(idx))
              IN obs.data[p] = (IF ns[idx[q] + 1] < 0 THEN MISSING ELSE Shift(Tag(w, v, e, ns[idx[q] + 1]), off))

SelectManyOK(w, v, ns, dimname, obs) == SelectManyOKOff(w, v, ns, dimname, obs, 0)

\* which variables a selection on grid kind k returns
SelectedVars(w, k) == {i \in 1..Len(w.vars) : ~w.vars[i].geometry /\ w.vars[i].kind = k /\ OnGrid(w.vars[i])}
\* variables that must be absent: geometry, and variables on another grid
AbsentVars(w, k) == {i \in 1..Len(w.vars) : w.vars[i].geometry \/ (w.vars[i].kind # k /\ w.vars[i].kind # "" /\ OnGrid(w.vars[i]))}

\* -------------------------------------------------------------- point lookup
HitSet(w, p) == {n \in ValidCells(w) : PointInClosedPoly(p, PolyAt(w, n))}
Lookup(w, p) == IF HitSet(w, p) = {} THEN -1 ELSE SetMin(HitSet(w, p))

=============================================================================
