SPECIFICATION Spec
INVARIANT StreamInjective
INVARIANT PrefixesMatter
PROPERTY KeyIffGeometry
PROPERTY NonGeometryNeverChangesKey
CHECK_DEADLOCK FALSE
