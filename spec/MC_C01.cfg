SPECIFICATION Spec
CONSTANTS
  MaxDim = 3
  MaxUG = 4
  Margin = 2
INVARIANT SizeIsCount
INVARIANT WindThenRavel
INVARIANT RavelThenWind
INVARIANT RowMajor
INVARIANT OutsideRejected
INVARIANT Injective
CHECK_DEADLOCK FALSE
