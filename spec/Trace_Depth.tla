----------------------------- MODULE Trace_Depth -----------------------------
(***************************************************************************)
(* Trace validation for C12 (ocean floor) and C13 (depth normalisation).   *)
(* `cur` is the specification's data set after the normalisations replayed *)
(* so far in the record.                                                   *)
(***************************************************************************)
EXTENDS Depth, TLC, Json, IOUtils, TLCExt

Log == ndJsonDeserialize(IOEnv.TRACE_FILE)
VARIABLES t, l, fails, seen, cur
tvars == <<t, l, fails, seen, cur>>
Rec == Log[t]
Ev  == Log[t].events[l]
W0  == Log[t].w

Ok(e) == "ok" \in DOMAIN e.obs
Is(e, a) == e.a = a /\ Ok(e)

VarIx(D, nm) == CHOOSE k \in 1..Len(D.vars) : D.vars[k].name = nm
HasV(D, nm) == \E k \in 1..Len(D.vars) : D.vars[k].name = nm
DepthDims(D) == {D.depths[k].dim : k \in 1..Len(D.depths)}
CoordOfDim(D, d) == D.depths[CHOOSE k \in 1..Len(D.depths) : D.depths[k].dim = d]
DepthDimOf(D, A) == CHOOSE d \in DepthDims(D) : d \in Range1(A.dims)
HasDepth(D, A) == \E d \in DepthDims(D) : d \in Range1(A.dims)
Spatial(ww, D, A) == {d \in Range1(A.dims) : d \notin DepthDims(D) /\ d \notin Range1(ww.nonspatial)}

\* the set of (value, physical depth) pairs of a variable along its depth dimension: what must not change
Pairing(D, A) ==
  LET d == DepthDimOf(D, A)  c == CoordOfDim(D, d)  p == PosOf(A.dims, d)
  IN {<<A.data[q], PhysDepth(c, UnravelRM(A.shape, q - 1)[p] + 1)>> : q \in {q \in 1..Len(A.data) : A.data[q] # MISSING}}

SameDepths(a, b) == Len(a) = Len(b) /\ \A k \in 1..Len(a) : a[k] = b[k]

\* expected ocean floor of variable A (declarative): per location the deepest valid value
FloorOf(D, A) ==
  LET d == DepthDimOf(D, A)  c == CoordOfDim(D, d)  p == PosOf(A.dims, d)
      rdims == DropAt(A.dims, p)  rshape == DropAt(A.shape, p)
  IN [dims |-> rdims, shape |-> rshape,
      data |-> [q \in 1..ProdSeq(rshape) |->
                  LET ridx == UnravelRM(rshape, q - 1)
                      oidx == SubSeq(ridx, 1, p - 1) \o <<0>> \o SubSeq(ridx, p, Len(ridx))
                  IN DeepestValid(ColumnAt(A, d, oidx), c)]]

\* static sea floor: within one variable the validity of a layer does not depend on the non-spatial index, and
\* variables of one group (same depth dimension, same spatial dimensions) share the pattern
ValidAt(ww, D, A, loc, k) ==      \* loc: function spatial dim -> index; any non-spatial index 0
  LET d == DepthDimOf(D, A)
  IN At(A, [p \in 1..Len(A.dims) |-> IF A.dims[p] = d THEN k ELSE IF A.dims[p] \in DOMAIN loc THEN loc[A.dims[p]] ELSE 0]) # MISSING

Names == {"Completed", "DepthCoordinatesListed", "NormMatches", "InputUnmodified", "SignAsRequested", "OrderAsRequested", "BoundsFollow",
          "PhysDepthPreserved", "UnsetUntouched", "SavedAsHeld",
          "FloorValues", "DepthRemoved", "OthersUntouched", "GeometryUntouched"}

Holds(name, ww, e) ==
  CASE name = "Completed" -> Ok(e)
    [] name = "DepthCoordinatesListed" ->
         \* the convention knows every depth coordinate of the dataset, and for a variable with a depth dimension names a
         \* coordinate on that dimension (none for a variable without one; an ambiguity may be refused)
         Is(e, "Touch") =>
            /\ {e.obs.ok.names[k] : k \in 1..Len(e.obs.ok.names)} = {cur.depths[k].name : k \in 1..Len(cur.depths)}
            /\ e.obs.ok.n = Len(cur.depths)
            /\ \A m \in 1..Len(e.obs.ok.forvar) :
                 LET fv == e.obs.ok.forvar[m]
                     A == cur.vars[VarIx(cur, fv.var)]
                     on == {cur.depths[k].name : k \in {k \in 1..Len(cur.depths) : cur.depths[k].dim \in Range1(A.dims)}}
                 IN HasV(cur, fv.var) =>
                      IF on = {} THEN fv.coord = ""
                      ELSE (fv.coord \in on \/ (Cardinality(on) > 1 /\ fv.coord = ""))
    \* ---------------------------------------------------------------- C13
    [] name = "NormMatches" ->
         Is(e, "Normalize") =>
            LET x == Normalise(cur, e.pd, e.d2s) IN
            /\ SameDepths(e.obs.ok.D.depths, x.depths)
            /\ Len(e.obs.ok.D.vars) = Len(x.vars)
            /\ \A k \in 1..Len(x.vars) : e.obs.ok.D.vars[k] = x.vars[k]
    [] name = "InputUnmodified" ->
         Is(e, "Normalize") => (SameDepths(e.obs.ok.input.depths, cur.depths) /\ e.obs.ok.input.vars = cur.vars)
    [] name = "SignAsRequested" ->
         (Is(e, "Normalize") /\ e.pd # "none") =>
            \A k \in 1..Len(e.obs.ok.D.depths) :
               LET c == e.obs.ok.D.depths[k]  c0 == cur.depths[k] IN
               /\ c.positive = (IF e.pd = "yes" THEN "down" ELSE "up")
               \* attribute and values agree: the physical depths read through the new attribute are the original ones
               /\ {PhysDepth(c, m) : m \in 1..Len(c.vals)} = {PhysDepth(c0, m) : m \in 1..Len(c0.vals)}
    [] name = "OrderAsRequested" ->
         (Is(e, "Normalize") /\ e.d2s # "none") =>
            \A k \in 1..Len(e.obs.ok.D.depths) :
               LET c == e.obs.ok.D.depths[k] IN
               \A m \in 1..(Len(c.vals) - 1) :
                  IF e.d2s = "yes" THEN PhysDepth(c, m) > PhysDepth(c, m + 1) ELSE PhysDepth(c, m) < PhysDepth(c, m + 1)
    [] name = "BoundsFollow" ->
         Is(e, "Normalize") =>
            \A k \in 1..Len(e.obs.ok.D.depths) :
               LET c == e.obs.ok.D.depths[k]  c0 == cur.depths[k] IN
               /\ Len(c.bounds) = Len(c0.bounds)
               /\ Len(c0.bounds) > 0 =>
                    \* each level keeps its own bounds, transformed with it
                    {<<PhysDepth(c, m), IF DataPositiveDown(c) THEN c.bounds[m] ELSE <<0 - c.bounds[m][1], 0 - c.bounds[m][2]>>>> : m \in 1..Len(c.vals)}
                  = {<<PhysDepth(c0, m), IF DataPositiveDown(c0) THEN c0.bounds[m] ELSE <<0 - c0.bounds[m][1], 0 - c0.bounds[m][2]>>>> : m \in 1..Len(c0.vals)}
    [] name = "PhysDepthPreserved" ->
         Is(e, "Normalize") =>
            \A k \in 1..Len(cur.vars) :
               (HasDepth(cur, cur.vars[k]) /\ Len(e.obs.ok.D.vars) = Len(cur.vars) /\ SameDepths(e.obs.ok.D.depths, Normalise(cur, e.pd, e.d2s).depths)) =>
                  Pairing(e.obs.ok.D, e.obs.ok.D.vars[k]) = Pairing(cur, cur.vars[k])
    [] name = "UnsetUntouched" ->
         (Is(e, "Normalize") /\ e.pd = "none" /\ e.d2s = "none") =>
            (SameDepths(e.obs.ok.D.depths, cur.depths) /\ e.obs.ok.D.vars = cur.vars)
    [] name = "SavedAsHeld" ->
         \* the dataset as it stands, written with the EMS fixes and read back, holds the same depth coordinates (values,
         \* attribute, bounds) and the same data
         Is(e, "Save") => (SameDepths(e.obs.ok.D.depths, cur.depths) /\ e.obs.ok.D.vars = cur.vars)
    \* ---------------------------------------------------------------- C12
    [] name = "FloorValues" ->
         Is(e, "OceanFloor") =>
            \A k \in 1..Len(cur.vars) :
               LET A == cur.vars[k] IN
               (HasDepth(cur, A) /\ Spatial(ww, cur, A) # {}) =>
                  /\ HasV(e.obs.ok, A.name)
                  /\ LET o == e.obs.ok.vars[VarIx(e.obs.ok, A.name)]  x == FloorOf(cur, A)
                     \* the order of the remaining dimensions is not significant (named dimensions): compare by name
                     IN /\ Len(o.dims) = Len(x.dims) /\ Range1(o.dims) = Range1(x.dims) /\ WellFormedArray(o)
                        /\ Transpose(o, x.dims).shape = x.shape
                        /\ Transpose(o, x.dims).data = x.data
    [] name = "DepthRemoved" ->
         Is(e, "OceanFloor") =>
            /\ \A k \in 1..Len(e.obs.ok.vars) : Range1(e.obs.ok.vars[k].dims) \cap DepthDims(cur) = {}
            /\ Range1(e.obs.ok.alldims) \cap DepthDims(cur) = {}
            /\ \A k \in 1..Len(cur.depths) : cur.depths[k].name \notin Range1(e.obs.ok.allnames)
    [] name = "OthersUntouched" ->
         Is(e, "OceanFloor") =>
            \A k \in 1..Len(cur.vars) :
               ~HasDepth(cur, cur.vars[k]) =>
                  (HasV(e.obs.ok, cur.vars[k].name) /\ e.obs.ok.vars[VarIx(e.obs.ok, cur.vars[k].name)] = cur.vars[k])
    [] name = "GeometryUntouched" ->
         Is(e, "OceanFloor") => (e.obs.ok.polys = e.inpolys /\ e.obs.ok.conv = e.inconv)

Failing(ww, e) == {name \in Names : ~Holds(name, ww, e)}

SeenOf(ww, e) ==
  {e.a, ww.conv, "via-" \o e.via}
  \cup (IF e.a = "Normalize" THEN {"pd-" \o e.pd, "d2s-" \o e.d2s} ELSE {})
  \cup (IF e.a = "Normalize" /\ Ok(e) /\ e.obs.ok.D.vars # cur.vars THEN {"data-reversed"} ELSE {})
  \cup (IF \E k \in 1..Len(cur.depths) : cur.depths[k].positive = "" THEN {"attr-withheld"} ELSE {})
  \cup (IF \E k \in 1..Len(cur.depths) : Len(cur.depths[k].bounds) > 0 THEN {"with-bounds"} ELSE {})
  \cup (IF Len(cur.depths) > 1 THEN {"two-depth-coordinates"} ELSE {})
  \cup (IF e.a = "Save" /\ cur # W0.D THEN {"saved-after-normalisation"} ELSE {})
  \cup (IF Len(cur.depths) > 2 THEN {"sediment-depth-coordinates"} ELSE {})
  \cup (IF \E a, b \in 1..Len(cur.depths) : a # b /\ cur.depths[a].dim = cur.depths[b].dim THEN {"two-coordinates-one-dimension"} ELSE {})
  \cup (IF e.a = "OceanFloor" /\ Ok(e) /\ \E k \in 1..Len(e.obs.ok.vars) : \E q \in 1..Len(e.obs.ok.vars[k].data) : e.obs.ok.vars[k].data[q] = MISSING
        THEN {"dry-column"} ELSE {})

Done == t > Len(Log)
TInit == /\ t = 1 /\ l = 1 /\ fails = {} /\ seen = {}
         /\ cur = IF Len(Log) > 0 THEN Log[1].w.D ELSE [depths |-> <<>>, vars |-> <<>>]
Step ==
  /\ ~Done
  /\ fails' = fails \cup {<<Rec.tid, l, name>> : name \in Failing(W0, Ev)}
  /\ seen' = seen \cup SeenOf(W0, Ev)
  /\ IF l < Len(Rec.events)
     THEN /\ l' = l + 1 /\ t' = t
          /\ cur' = IF Ev.a = "Normalize" THEN Normalise(cur, Ev.pd, Ev.d2s)
                    ELSE IF Ev.a = "SetPositive" THEN [cur EXCEPT !.depths[Ev.k].positive = Ev.value]
                    ELSE cur
     ELSE /\ l' = 1 /\ t' = t + 1
          /\ cur' = IF t + 1 <= Len(Log) THEN Log[t + 1].w.D ELSE cur
TSpec == TInit /\ [][Step]_tvars
Verdict == [records |-> Len(Log), fails |-> SetToSeq(fails), seen |-> SetToSeq(seen), missing |-> <<>>]
EmitVerdict == Done => JsonSerialize(IOEnv.VERDICT_FILE, Verdict)
=============================================================================
