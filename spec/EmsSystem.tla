------------------------------ MODULE EmsSystem ------------------------------
(***************************************************************************)
(* The composed state machine: sessions that mix detection / binding,      *)
(* copying, clipping (make mask, save / load mask, apply), selecting,       *)
(* point lookups, single-cell selections and point extraction (each        *)
(* missing-point policy), triangulation and geometry export on any view,   *)
(* variables, in-place modification, saving and reopening -- on datasets    *)
(* DERIVED from one another.  The per-property modules decide each          *)
(* operation in depth; this module decides that they compose: whatever     *)
(* chain of operations produced a dataset, it is again a dataset of the    *)
(* same convention, every cell it still has is an original cell with its   *)
(* original polygon, every value it shows is the original value of that    *)
(* cell (or missing where the cell was clipped away), and bindings never    *)
(* leak between datasets.                                                  *)
(*                                                                         *)
(* A dataset object is a VIEW of the base world B:                         *)
(*   cells : Seq(Nat)   position -> original face index (row-major window  *)
(*                      of the base grid, or kept faces of the mesh)       *)
(*   win   : <<j0, j1, i0, i1>> for grids (inclusive), <<>> for meshes      *)
(*   sel   : set of original faces whose values are still present          *)
(*   vars  : set of data variable names still present                      *)
(*   off   : offset added in place to every data variable so far           *)
(*   bound, cached : convention object ids (0 = none), as in Registry      *)
(***************************************************************************)
EXTENDS Cells, TLC, Json

CONSTANTS BaseWorld,  \* the base world (geometry + tagged face variables)
          MaxObjs, MaxMasks, MaxConvs, Depth,
          VarChoices, \* sets of variable names that select_variables may be asked for
          MaskSizes,  \* sizes of the hit sets tried by MakeMask
          MaxFiles, MaxOff,
          PointLists  \* sequences of original cells that Extract may be asked for (a point strictly inside each)

VARIABLES B,          \* the base world, fixed by Init (a variable only so that it is read from its file once)
          objs,       \* Seq of dataset views (position = object id)
          masks,      \* Seq of [cells, sel] : a mask made for a view with that cell layout, selecting sel
          files,      \* Seq of saved things: [kind |-> "mask" | "ds", ...]
          convs,      \* Seq of [obj] : convention objects (all of the detected class)
          out, hist
vars == <<B, objs, masks, files, convs, out, hist>>
view == <<objs, masks, files, convs>>

IsGrid == ~IsUGrid(B)
NFace == FaceCount(B)
AllVars == {B.vars[i].name : i \in {i \in 1..Len(B.vars) : B.vars[i].kind = "face" /\ OnGrid(B.vars[i])}}
Iota(n) == [k \in 1..n |-> k - 1]

BaseViewOf(b) == [cells |-> Iota(FaceCount(b)), win |-> IF ~IsUGrid(b) THEN <<0, b.ny - 1, 0, b.nx - 1>> ELSE <<>>,
                  sel |-> {n \in 0..(FaceCount(b) - 1) : TRUE},
                  vars |-> {b.vars[i].name : i \in {i \in 1..Len(b.vars) : b.vars[i].kind = "face" /\ OnGrid(b.vars[i])}},
                  off |-> 0, bound |-> 0, cached |-> 0]
BaseView == [cells |-> Iota(NFace), win |-> IF IsGrid THEN <<0, B.ny - 1, 0, B.nx - 1>> ELSE <<>>,
             sel |-> {n \in 0..(NFace - 1) : TRUE}, vars |-> AllVars, off |-> 0, bound |-> 0, cached |-> 0]

Init == /\ B = BaseWorld /\ objs = <<BaseViewOf(BaseWorld)>> /\ masks = <<>> /\ files = <<>> /\ convs = <<>>
        /\ out = [a |-> "init"] /\ hist = <<>>

Log(r) == hist' = Append(hist, r)
Live == 1..Len(objs)

\* ------------------------------------------------------------- binding (cf. Registry / MC_C11)
Access(o) ==
  /\ o \in Live /\ Log([a |-> "Access", obj |-> o])
  /\ UNCHANGED <<masks, files>>
  /\ IF objs[o].cached # 0
     THEN out' = [a |-> "Access", obj |-> o, conv |-> objs[o].cached] /\ UNCHANGED <<objs, convs>>
     ELSE IF objs[o].bound # 0
     THEN /\ objs' = [objs EXCEPT ![o].cached = objs[o].bound]
          /\ out' = [a |-> "Access", obj |-> o, conv |-> objs[o].bound] /\ UNCHANGED convs
     ELSE /\ Len(convs) < MaxConvs
          /\ convs' = Append(convs, [obj |-> o])
          /\ objs' = [objs EXCEPT ![o].bound = Len(convs) + 1, ![o].cached = Len(convs) + 1]
          /\ out' = [a |-> "Access", obj |-> o, conv |-> Len(convs) + 1]

\* Every operation reached through `dataset.ems` first goes through the accessor: Touched(o) is <<objs, convs>> after
\* that implicit access (the dataset is bound to a fresh convention object unless it already has one)
Touched(o) ==
  IF objs[o].cached # 0 THEN <<objs, convs>>
  ELSE IF objs[o].bound # 0 THEN <<[objs EXCEPT ![o].cached = objs[o].bound], convs>>
  ELSE <<[objs EXCEPT ![o].bound = Len(convs) + 1, ![o].cached = Len(convs) + 1], Append(convs, [obj |-> o])>>
CanTouch(o) == objs[o].bound # 0 \/ Len(convs) < MaxConvs

Copy(o) ==
  /\ o \in Live /\ Len(objs) < MaxObjs /\ Log([a |-> "Copy", obj |-> o])
  /\ objs' = Append(objs, [objs[o] EXCEPT !.bound = 0, !.cached = 0])
  /\ out' = [a |-> "Copy", obj |-> o, new |-> Len(objs) + 1]
  /\ UNCHANGED <<masks, files, convs>>

\* ------------------------------------------------------------- clipping
\* any non-empty set of cells that still carry values can be hit exactly (by points strictly inside them)
MakeMask(o, F) ==
  /\ o \in Live /\ Len(masks) < MaxMasks /\ F # {} /\ F \subseteq (objs[o].sel \cap ValidCells(B))
  /\ Log([a |-> "MakeMask", obj |-> o, F |-> F])
  /\ CanTouch(o)
  /\ masks' = Append(masks, [cells |-> objs[o].cells, win |-> objs[o].win, sel |-> F])
  /\ out' = [a |-> "MakeMask", mask |-> Len(masks) + 1]
  /\ objs' = Touched(o)[1] /\ convs' = Touched(o)[2]
  /\ UNCHANGED files

SaveMask(m) ==
  /\ m \in 1..Len(masks) /\ Len(files) < MaxFiles /\ Log([a |-> "SaveMask", mask |-> m])
  /\ files' = Append(files, [kind |-> "mask", mask |-> masks[m]])
  /\ out' = [a |-> "SaveMask", file |-> Len(files) + 1] /\ UNCHANGED <<objs, masks, convs>>
LoadMask(f) ==
  /\ f \in 1..Len(files) /\ files[f].kind = "mask" /\ Len(masks) < MaxMasks /\ Log([a |-> "LoadMask", file |-> f])
  /\ masks' = Append(masks, files[f].mask)
  /\ out' = [a |-> "LoadMask", mask |-> Len(masks) + 1] /\ UNCHANGED <<objs, files, convs>>

\* the cells of a grid window, row-major
JOf(n) == n \div B.nx
IOf(n) == n % B.nx
WinH(win) == win[2] - win[1] + 1
WinW(win) == win[4] - win[3] + 1
WinRow(win, k) == win[1] + ((k - 1) \div WinW(win))
WinCol(win, k) == win[3] + ((k - 1) % WinW(win))
WindowCells(win) == [k \in 1..(WinH(win) * WinW(win)) |-> (WinRow(win, k) * B.nx) + WinCol(win, k)]
BBoxOf(F) == <<SetMin({JOf(n) : n \in F}), SetMax({JOf(n) : n \in F}), SetMin({IOf(n) : n \in F}), SetMax({IOf(n) : n \in F})>>

\* a mask applies to any view with the cell layout it was made for (this dataset, a copy, a reopened file ...)
ApplyMask(o, m) ==
  /\ o \in Live /\ m \in 1..Len(masks) /\ Len(objs) < MaxObjs
  /\ masks[m].cells = objs[o].cells
  /\ Log([a |-> "ApplyMask", obj |-> o, mask |-> m])
  /\ LET F == masks[m].sel
         v == objs[o]
         new == IF IsGrid
                THEN [v EXCEPT !.win = BBoxOf(F), !.cells = WindowCells(BBoxOf(F)), !.sel = v.sel \cap F, !.bound = 0, !.cached = 0]
                ELSE [v EXCEPT !.cells = SelectSeq(v.cells, LAMBDA n : n \in F), !.sel = v.sel \cap F, !.bound = 0, !.cached = 0]
     IN objs' = Append(Touched(o)[1], new)
  /\ CanTouch(o) /\ convs' = Touched(o)[2]
  /\ out' = [a |-> "ApplyMask", new |-> Len(objs) + 1]
  /\ UNCHANGED <<masks, files>>

\* ------------------------------------------------------------- other derivations
SelectVariables(o, vs) ==
  /\ o \in Live /\ Len(objs) < MaxObjs /\ vs \subseteq objs[o].vars
  /\ Log([a |-> "SelectVariables", obj |-> o, names |-> vs])
  /\ CanTouch(o)
  /\ objs' = Append(Touched(o)[1], [objs[o] EXCEPT !.vars = vs, !.bound = 0, !.cached = 0])
  /\ convs' = Touched(o)[2]
  /\ out' = [a |-> "SelectVariables", new |-> Len(objs) + 1]
  /\ UNCHANGED <<masks, files>>

\* dataset[name] = dataset[name] + k for every data variable, in place: same object, same binding
Mutate(o, k) ==
  /\ o \in Live /\ objs[o].off < MaxOff /\ Log([a |-> "Mutate", obj |-> o, k |-> k])
  /\ objs' = [objs EXCEPT ![o].off = @ + k]
  /\ out' = [a |-> "Mutate", obj |-> o] /\ UNCHANGED <<masks, files, convs>>

Save(o) ==
  /\ o \in Live /\ Len(files) < MaxFiles /\ Log([a |-> "Save", obj |-> o])
  /\ CanTouch(o)
  /\ files' = Append(files, [kind |-> "ds", view |-> [objs[o] EXCEPT !.bound = 0, !.cached = 0]])
  /\ objs' = Touched(o)[1] /\ convs' = Touched(o)[2]
  /\ out' = [a |-> "Save", file |-> Len(files) + 1] /\ UNCHANGED masks
Open(f) ==
  /\ f \in 1..Len(files) /\ files[f].kind = "ds" /\ Len(objs) < MaxObjs /\ Log([a |-> "Open", file |-> f])
  /\ objs' = Append(objs, files[f].view)
  /\ out' = [a |-> "Open", new |-> Len(objs) + 1] /\ UNCHANGED <<masks, files, convs>>

\* ------------------------------------------------------------- questions asked of a view (no new dataset)
\* position (0-based) of original cell n in view v, -1 if the view does not have it
PosOfCell(v, n) == IF \E k \in 1..Len(v.cells) : v.cells[k] = n
                   THEN (CHOOSE k \in 1..Len(v.cells) : v.cells[k] = n) - 1 ELSE -1
\* point lookup with a point strictly inside original cell n (get_index_for_point through the accessor)
Query(o, n) ==
  /\ o \in Live /\ n \in ValidCells(B) /\ CanTouch(o)
  /\ Log([a |-> "Query", obj |-> o, cell |-> n])
  /\ objs' = Touched(o)[1] /\ convs' = Touched(o)[2]
  /\ out' = [a |-> "Query", obj |-> o, pos |-> PosOfCell(objs[o], n)]
  /\ UNCHANGED <<masks, files>>
\* the data of one cell of a view (select_index with the native index of position pos)
SelectCell(o, pos) ==
  /\ o \in Live /\ pos \in 1..Len(objs[o].cells) /\ CanTouch(o)
  /\ objs[o].vars # {}      \* (with no variable left on the grid the code refuses: isel finds no such dimension)
  /\ Log([a |-> "SelectCell", obj |-> o, pos |-> pos])
  /\ objs' = Touched(o)[1] /\ convs' = Touched(o)[2]
  /\ out' = [a |-> "SelectCell", obj |-> o, pos |-> pos]
  /\ UNCHANGED <<masks, files>>

\* extract_points / extract_dataframe with one point strictly inside each of the original cells ns, in that order, under a
\* missing-point policy.  A request misses when the view no longer has the cell; requests for cells the view has but whose
\* values were blanked are left out (whether such a cell still has a polygon differs between conventions).  As the code
\* stands, a request list without a single hit is refused whatever the policy ("Need at least one index to select").
Misses(v, ns) == {k \in 1..Len(ns) : PosOfCell(v, ns[k]) = -1}
Extract(o, ns, pol) ==
  /\ o \in Live /\ CanTouch(o) /\ objs[o].vars # {} /\ pol \in {"error", "drop", "fill"}
  /\ Len(ns) > 0 /\ \A k \in 1..Len(ns) : ns[k] \in ValidCells(B) /\ (ns[k] \in objs[o].sel \/ PosOfCell(objs[o], ns[k]) = -1)
  /\ Misses(objs[o], ns) # 1..Len(ns)
  /\ Log([a |-> "Extract", obj |-> o, cells |-> ns, policy |-> pol])
  /\ objs' = Touched(o)[1] /\ convs' = Touched(o)[2]
  /\ out' = [a |-> "Extract", obj |-> o, misses |-> Misses(objs[o], ns)]
  /\ UNCHANGED <<masks, files>>

\* triangulate_dataset on a view: no new dataset; the answer is judged against the view's cells (Trace_System)
Triangulate(o) ==
  /\ o \in Live /\ CanTouch(o)
  /\ Log([a |-> "Triangulate", obj |-> o])
  /\ objs' = Touched(o)[1] /\ convs' = Touched(o)[2]
  /\ out' = [a |-> "Triangulate", obj |-> o]
  /\ UNCHANGED <<masks, files>>

\* write the cells of a view as GeoJSON features (operations.geometry.write_geojson) and read the file back
Export(o) ==
  /\ o \in Live /\ CanTouch(o)
  /\ Log([a |-> "Export", obj |-> o])
  /\ objs' = Touched(o)[1] /\ convs' = Touched(o)[2]
  /\ out' = [a |-> "Export", obj |-> o]
  /\ UNCHANGED <<masks, files>>

Next ==
  /\ Len(hist) < Depth /\ UNCHANGED B
  /\ \/ \E o \in Live : Access(o) \/ Copy(o) \/ Save(o) \/ Mutate(o, 1)
     \/ \E o \in Live : \E F \in SUBSET objs[o].sel : Cardinality(F) \in MaskSizes /\ MakeMask(o, F)
     \/ \E m \in 1..MaxMasks : SaveMask(m)
     \/ \E f \in 1..MaxFiles : LoadMask(f) \/ Open(f)
     \/ \E o \in Live : \E m \in 1..MaxMasks : ApplyMask(o, m)
     \/ \E o \in Live : \E vs \in VarChoices : SelectVariables(o, vs)
     \/ \E o \in Live : \E n \in ValidCells(B) : Query(o, n)
     \/ \E o \in Live : \E pos \in 1..Len(objs[o].cells) : SelectCell(o, pos)
     \/ \E o \in Live : Triangulate(o) \/ Export(o)
     \/ \E o \in Live : \E ns \in PointLists : \E pol \in {"error", "drop", "fill"} : Extract(o, ns, pol)
Spec == Init /\ [][Next]_vars

\* ------------------------------------------------------------- what a view shows
PolyOf(v, pos) == PolyAt(B, v.cells[pos])
\* (a variable that cannot represent a missing value -- fillkind "none" -- is cropped but never blanked)
ValueOf(v, var, ex, pos) ==
  IF v.cells[pos] \in v.sel \/ var.fillkind = "none" THEN Shift(Tag(B, var, ex, v.cells[pos]), v.off) ELSE MISSING

\* ------------------------------------------------------------- system invariants
\* every view is a well-formed dataset of the same convention: cells are distinct original cells, in the original order
ViewsWellFormed ==
  \A o \in Live :
     /\ \A a, b \in 1..Len(objs[o].cells) : a < b => objs[o].cells[a] < objs[o].cells[b]
     /\ objs[o].sel \subseteq {objs[o].cells[k] : k \in 1..Len(objs[o].cells)}
     /\ Len(objs[o].cells) > 0 /\ objs[o].sel # {}
     /\ IsGrid => objs[o].cells = WindowCells(objs[o].win)
\* the crop of a grid view is the bounding range of something selected: first and last row / column hold a selected cell
CropTight ==
  \A o \in Live : IsGrid =>
     LET v == objs[o] IN
     \/ v.win = BaseView.win
     \/ (/\ \E n \in v.sel : JOf(n) = v.win[1] \/ JOf(n) = v.win[2] \/ IOf(n) = v.win[3] \/ IOf(n) = v.win[4])
\* nothing is ever un-clipped: a derived view never shows a value its source did not show
NoResurrection == [][\A o \in 1..Len(objs) : objs'[o].sel = objs[o].sel /\ objs'[o].cells = objs[o].cells /\ objs'[o].vars = objs[o].vars]_vars
\* bindings (C11 at system level): once bound always that object; new datasets start unbound; conventions belong to one dataset
BoundStable == [][\A o \in 1..Len(objs) : objs[o].bound # 0 => objs'[o].bound = objs[o].bound]_vars
NewStartUnbound == [][Len(objs') > Len(objs) => (objs'[Len(objs')].bound = 0 /\ objs'[Len(objs')].cached = 0)]_vars
CachedIsBound == \A o \in Live : objs[o].cached # 0 => objs[o].cached = objs[o].bound
BoundBelongs == \A o \in Live : objs[o].bound # 0 => convs[objs[o].bound].obj = o

\* emission of sessions for replay
Emit == (Len(hist) = Depth) => PrintT(<<"CASE", ToJson([hist |-> hist])>>)
=============================================================================
