------------------------------ MODULE Trace_C18 ------------------------------
(***************************************************************************)
(* Trace validation for C18: Transect.segments and                         *)
(* prepare_data_array_for_transect on axis-aligned lattice cells against   *)
(* Transect.tla.  GEOS may split the part of the path inside one cell at a *)
(* path vertex; the clauses are a refinement: per cell, the observed       *)
(* segments tile exactly the steps of the path inside that cell.           *)
(***************************************************************************)
EXTENDS Cells, Transect, TLC, Json, IOUtils, TLCExt

Log == ndJsonDeserialize(IOEnv.TRACE_FILE)
VARIABLES t, l, fails, seen
tvars == <<t, l, fails, seen>>
Rec == Log[t]
Ev  == Log[t].events[l]
W0  == Log[t].w
Ok(e) == "ok" \in DOMAIN e.obs

PathOf(e) == [k \in 1..Len(e.path) |-> <<e.path[k][1], e.path[k][2]>>]
Pt(x) == <<x[1], x[2]>>
SegSteps2(P, sg) == (ParamOf(P, Pt(sg.start)) + 1)..ParamOf(P, Pt(sg.stop))
OnPath(P, sg) == ParamOf(P, Pt(sg.start)) >= 0 /\ ParamOf(P, Pt(sg.stop)) >= 0
CellsOf(ww) == [n \in 1..Len(ww.cells) |-> ww.cells[n]]
BendAt(P, k) == <<P[k][1] - P[k - 1][1], P[k][2] - P[k - 1][2]>> # <<P[k + 1][1] - P[k][1], P[k + 1][2] - P[k][2]>>
SegsOfCell(sgs, n) == {k \in 1..Len(sgs) : sgs[k].linear = n - 1}
RECURSIVE SumSegs(_, _, _)
SumSegs(P, sgs, k) == IF k > Len(sgs) THEN 0 ELSE (ParamOf(P, Pt(sgs[k].stop)) - ParamOf(P, Pt(sgs[k].start))) + SumSegs(P, sgs, k + 1)

Names == {"PreparedAgain", "Completed", "SegmentsOnPath", "StartBeforeEnd", "InsideCell", "IndexesNameCell", "TilesEachCell", "OrderedByStart",
          "DistancesFollowPath", "DistancesMeet", "LengthsAddUp", "PreparedValues", "DomainSharedEdge"}

PreparedOK(ww, e, o, off) ==
  LET v == ww.vars[VarByName(ww, e.var)]
      sgs == e.obs.ok.segments
      np == Len(sgs)
  IN /\ WellFormedArray(o)
     /\ Len(o.dims) = Len(v.dims) - Len(v.gridpos) + 1
     /\ o.shape[Len(o.shape)] = np
     \* the last dimension indexes the segments; the others are v's other dimensions (depth moved next to last)
     /\ Range1(SubSeq(o.dims, 1, Len(o.dims) - 1)) = Range1(OtherNames(v))
     /\ \A q \in 1..Len(o.data) :
          LET idx == UnravelRM(o.shape, q - 1)
              ex == [m \in 1..Len(OtherNames(v)) |-> idx[PosOf(o.dims, OtherNames(v)[m])]]
          IN o.data[q] = Shift(Tag(ww, v, ex, sgs[idx[Len(idx)] + 1].linear), off)

Holds(name, ww, e) ==
  LET P == Points(PathOf(e))  sgs == e.obs.ok.segments  cells == CellsOf(ww) IN
  CASE name = "Completed" -> Ok(e)
    [] name = "DomainSharedEdge" -> SharedSteps(P, cells) = {}      \* marker for the known-findings matcher, not a clause
    [] name = "SegmentsOnPath" -> Ok(e) => \A k \in 1..Len(sgs) : OnPath(P, sgs[k])
    [] name = "StartBeforeEnd" ->
         Ok(e) => \A k \in 1..Len(sgs) : OnPath(P, sgs[k]) =>
            (ParamOf(P, Pt(sgs[k].start)) < ParamOf(P, Pt(sgs[k].stop)) /\ sgs[k].d0 <= sgs[k].d1)
    [] name = "InsideCell" ->
         Ok(e) => \A k \in 1..Len(sgs) : (OnPath(P, sgs[k]) /\ sgs[k].linear >= 0 /\ sgs[k].linear < Len(cells)) =>
            \A s \in SegSteps2(P, sgs[k]) : StepIn(P, s, cells[sgs[k].linear + 1])
    [] name = "IndexesNameCell" ->
         Ok(e) => \A k \in 1..Len(sgs) :
            /\ sgs[k].linear >= 0 /\ sgs[k].linear < Len(cells) /\ cells[sgs[k].linear + 1] # <<>>
            /\ sgs[k].native = WindIndex(ww, "face", sgs[k].linear)
    [] name = "TilesEachCell" ->
         (Ok(e) /\ \A k \in 1..Len(sgs) : OnPath(P, sgs[k])) =>
            \A n \in 1..Len(cells) :
               /\ UNION {SegSteps2(P, sgs[k]) : k \in SegsOfCell(sgs, n)} = StepsIn(P, cells[n])
               /\ \A a, b \in SegsOfCell(sgs, n) : a # b => SegSteps2(P, sgs[a]) \cap SegSteps2(P, sgs[b]) = {}
    [] name = "OrderedByStart" ->
         (Ok(e) /\ \A k \in 1..Len(sgs) : OnPath(P, sgs[k])) =>
            \A k \in 1..(Len(sgs) - 1) : ParamOf(P, Pt(sgs[k].start)) <= ParamOf(P, Pt(sgs[k + 1].start)) /\ sgs[k].d0 <= sgs[k + 1].d0
    [] name = "DistancesFollowPath" ->
         \* distances are used for order only: further along the path (by at least one lattice step) means further in metres
         (Ok(e) /\ \A k \in 1..Len(sgs) : OnPath(P, sgs[k])) =>
            \A a, b \in 1..Len(sgs) :
               /\ (ParamOf(P, Pt(sgs[a].start)) < ParamOf(P, Pt(sgs[b].start)) => sgs[a].d0 < sgs[b].d0)
               /\ (ParamOf(P, Pt(sgs[a].stop)) < ParamOf(P, Pt(sgs[b].stop)) => sgs[a].d1 < sgs[b].d1)
               /\ (ParamOf(P, Pt(sgs[a].start)) < ParamOf(P, Pt(sgs[b].stop)) => sgs[a].d0 < sgs[b].d1)
    [] name = "DistancesMeet" ->
         \* round 13: where one segment stops at the very point at which another starts, the two distances along the path
         \* are the same number (the code measures both with one function of the same point).  Metres are not modelled,
         \* so "the same" is judged against the run itself: the gap is below a twentieth of the average lattice step in
         \* metres.  A distance that cuts a bend between two path vertices inside one cell opens a gap of 0.18 steps or more.
         (Ok(e) /\ Len(sgs) > 0 /\ \A k \in 1..Len(sgs) : OnPath(P, sgs[k])) =>
            LET span == SetMax({ParamOf(P, Pt(sgs[k].stop)) : k \in 1..Len(sgs)}) - SetMin({ParamOf(P, Pt(sgs[k].start)) : k \in 1..Len(sgs)})
                metres == SetMax({sgs[k].d1 : k \in 1..Len(sgs)}) - SetMin({sgs[k].d0 : k \in 1..Len(sgs)})
            IN \A a, b \in 1..Len(sgs) : ParamOf(P, Pt(sgs[a].stop)) = ParamOf(P, Pt(sgs[b].start)) =>
                  AbsI(sgs[a].d1 - sgs[b].d0) * 20 * span <= metres
    [] name = "LengthsAddUp" ->
         (Ok(e) /\ \A k \in 1..Len(sgs) : OnPath(P, sgs[k])) => SumSegs(P, sgs, 1) = Cardinality(ModelSteps(P, cells))
    [] name = "PreparedValues" -> (Ok(e) /\ e.var # "") => PreparedOK(ww, e, e.obs.ok.prepared, 0)
    [] name = "PreparedAgain" ->
         \* the SAME Transect object asked to prepare another array of the same name, dimensions and shape (every value
         \* e.shift larger), and then the first one once more
         (Ok(e) /\ e.var # "" /\ "prepared2" \in DOMAIN e.obs.ok) =>
            /\ PreparedOK(ww, e, e.obs.ok.prepared2, e.shift)
            /\ PreparedOK(ww, e, e.obs.ok.prepared3, 0)

\* Paths off the lattice (FreeTransect) are judged structurally only: the columns prepared for plotting are exactly the
\* segments, in their order - one column, one pair of distance bounds and one cell index per segment
FreeOK(e) == /\ e.obs.ok.tdlinear = e.obs.ok.seglinear
             /\ e.obs.ok.ncols = Len(e.obs.ok.seglinear) /\ e.obs.ok.nbounds = Len(e.obs.ok.seglinear)
Failing(ww, e) ==
  IF e.a = "FreeTransect"
  THEN (IF ~Ok(e) THEN {"Completed"} ELSE {}) \cup (IF Ok(e) /\ ~FreeOK(e) THEN {"ColumnsAreSegments"} ELSE {})
  ELSE {name \in Names : ~Holds(name, ww, e)}
       \cup (IF Ok(e) /\ e.obs.ok.tdlinear # [k \in 1..Len(e.obs.ok.segments) |-> e.obs.ok.segments[k].linear] THEN {"ColumnsAreSegments"} ELSE {})
SeenOf(ww, e) ==
  IF e.a = "FreeTransect" THEN {"FreeTransect"} \cup (IF Ok(e) /\ Len(e.obs.ok.seglinear) > 0 THEN {"free-with-segments"} ELSE {}) ELSE
  LET P == Points(PathOf(e))  cells == CellsOf(ww) IN
  {e.a, ww.conv}
  \cup (IF ModelSteps(P, cells) = {} THEN {"misses-model"} ELSE {})
  \cup (IF SharedSteps(P, cells) # {} THEN {"along-shared-edge"} ELSE {})
  \cup (IF \E n \in 1..Len(cells) : cells[n] = <<>> THEN {"holes"} ELSE {})
  \cup (IF ~InCell(P[1], <<-1000, -1000, 1000, 1000>>) THEN {} ELSE
          (IF \E n \in 1..Len(cells) : InCell(P[1], cells[n]) THEN {"starts-inside"} ELSE {"starts-outside"}))
  \cup (IF \E n \in 1..Len(cells) : Cardinality(Runs(P, cells[n])) > 1 THEN {"re-enters-cell"} ELSE {})
  \cup (IF Len(e.path) > 2 THEN {"several-vertices"} ELSE {})
  \cup (IF Ok(e) /\ (\A k \in 1..Len(e.obs.ok.segments) : OnPath(P, e.obs.ok.segments[k]))
           /\ (\E a, b \in 1..Len(e.obs.ok.segments) : ParamOf(P, Pt(e.obs.ok.segments[a].stop)) = ParamOf(P, Pt(e.obs.ok.segments[b].start)))
        THEN {"segments-meet"} ELSE {})
  \cup (IF \E n \in 1..Len(cells), k, k2 \in 2..(Len(P) - 1) :
                 /\ k < k2 /\ BendAt(P, k) /\ BendAt(P, k2) /\ \A q \in (k - 1)..k2 : StepIn(P, q, cells[n])
        THEN {"bends-inside-cell"} ELSE {})
  \cup (IF Ok(e) /\ "prepared2" \in DOMAIN e.obs.ok /\ Len(e.obs.ok.segments) > 0 THEN {"prepared-again"} ELSE {})
  \cup (IF \E k \in 1..(Len(e.path) - 1) : e.path[k][1] # e.path[k + 1][1] /\ e.path[k][2] # e.path[k + 1][2] THEN {"diagonal"} ELSE {})

Done == t > Len(Log)
TInit == t = 1 /\ l = 1 /\ fails = {} /\ seen = {}
Step == /\ ~Done
        /\ fails' = fails \cup {<<Rec.tid, l, name>> : name \in Failing(W0, Ev)}
        /\ seen' = seen \cup SeenOf(W0, Ev)
        /\ IF l < Len(Rec.events) THEN l' = l + 1 /\ t' = t ELSE l' = 1 /\ t' = t + 1
TSpec == TInit /\ [][Step]_tvars
Verdict == [records |-> Len(Log), fails |-> SetToSeq(fails), seen |-> SetToSeq(seen), missing |-> <<>>]
EmitVerdict == Done => JsonSerialize(IOEnv.VERDICT_FILE, Verdict)
=============================================================================
