----------------------------- MODULE Trace_Cells -----------------------------
(***************************************************************************)
(* Trace validation for C02, C04 and C05 (and the cell-order clauses other *)
(* properties reuse): recorded accessor results against the views of       *)
(* Cells.tla.  `polys` caches the world's cell polygons for the record     *)
(* being replayed.                                                         *)
(***************************************************************************)
EXTENDS Cells, TLC, Json, IOUtils, TLCExt

Log == ndJsonDeserialize(IOEnv.TRACE_FILE)

VARIABLES t, l, fails, seen, polys, clean, woff      \* woff: offset applied in place to every data variable so far (Mutate events)
tvars == <<t, l, fails, seen, polys, clean, woff>>
Rec == Log[t]
Ev  == Log[t].events[l]
W0  == Log[t].w

PolysOf(ww) == [n \in 1..FaceCount(ww) |-> PolyAt(ww, n - 1)]
CleanOf(ww) == \A n \in 0..(FaceCount(ww) - 1) : ~Degenerate(RawPoly(ww, n))

Ok(e) == "ok" \in DOMAIN e.obs
Is(e, a) == e.a = a /\ Ok(e)

Hits(p) == {n \in 0..(Len(polys) - 1) : polys[n + 1] # <<>> /\ PointInClosedPoly(p, polys[n + 1])}
Least(S) == IF S = {} THEN -1 ELSE SetMin(S)

ObsVar(vs, nm) == vs[CHOOSE k \in 1..Len(vs) : vs[k].name = nm]
HasVar(vs, nm) == \E k \in 1..Len(vs) : vs[k].name = nm
NamesOf(vs) == {vs[k].name : k \in 1..Len(vs)}
VarNames(ww, S) == {ww.vars[i].name : i \in S}

\* scaled (x4) centroid inside own convex cell
Centroid4OK(c4, Pg) == PointInClosedPoly(c4, [k \in 1..Len(Pg) |-> <<4 * Pg[k][1], 4 * Pg[k][2]>>])

\* values of all variables on grid kind k selected at the cells ns (request order), -1 = miss
\* variables flagged `late` are added to the dataset by the first Mutate event
Exists(ww, i) == ~ww.vars[i].late \/ woff # 0
SelVars(ww, k) == {i \in SelectedVars(ww, k) : Exists(ww, i)}
ManyOK(ww, k, ns, dimname, vs) ==
  /\ VarNames(ww, SelVars(ww, k)) \subseteq NamesOf(vs)
  /\ \A i \in SelVars(ww, k) : SelectManyOKOff(ww, ww.vars[i], ns, dimname, ObsVar(vs, ww.vars[i].name), woff)
ShiftSeq(sq) == [k \in 1..Len(sq) |-> Shift(sq[k], woff)]

\* the request dimension: given, or the first unused name with the documented prefix
DimOf(ww, e) ==
  IF "default_dim" \in DOMAIN e
  THEN FindUnusedStr(IF e.a = "SelectIndexes" THEN "index" ELSE "point", Range1(ww.alldims))
  ELSE e.dim

ClauseNames == {"GeometryAbsent", "Completed", "PolyOrder", "CentreOrder", "RavelOrder", "SelectOrder", "SelectAbsent", "HitsArePositions", "SpatialIndexItems",
                "IffIntersects", "LowestIndex", "Coherent", "NeverAHole", "SelectPointMatches",
                "IndexesValues", "IndexesAbsent", "DtypeKept", "PointsError", "PointsDrop", "PointsFill", "FrameColumns",
                "ExportCells", "ExportIndexes",
                "PatchPerValidCell", "ValuePairs", "ClimSpansValues", "OverridesRespected", "Refused", "QuiverPairs"}

\* the valid cells in ascending linear order (0-based linear indexes)
ValidSeq == SelectSeq([n \in 1..Len(polys) |-> n - 1], LAMBDA n : polys[n + 1] # <<>>)
PlotVar(ww, e) == ww.vars[VarByName(ww, e.var)]
IsPlottable(v) == OnGrid(v) /\ Len(v.dims) = Len(v.gridpos)      \* no leftover dimensions
FaceTag(ww, v, n) == Shift(Tag(ww, v, <<>>, n), woff)      \* (the stored value after the in-place modifications so far)
NonMissing(S) == {x \in S : x # MISSING}

Clause(name, ww, e) ==
  CASE name = "Completed" -> Ok(e) \/ e.a \in {"SelectPoint", "SelectPoints", "ExtractDF", "Mutate"}
                             \/ (e.a \in {"PolyCollection", "Quiver"} /\ e.refuse # "")
    \* ------------------------------------------------------------ C02
    [] name = "PolyOrder" ->
         Is(e, "Polygons") =>
            /\ Len(e.obs.ok.polys) = Len(polys)
            /\ \A n \in 1..Len(polys) : Degenerate(RawPoly(ww, n - 1)) \/ SameRing(e.obs.ok.polys[n], polys[n])
    [] name = "CentreOrder" ->
         Is(e, "Centres") =>
            /\ Len(e.obs.ok.c) = Len(polys)
            /\ \A n \in 1..Len(polys) :
                 LET c == CentreAt(ww, n - 1)
                 IN IF c # <<NANQ, NANQ>> \/ ~IsUGrid(ww) THEN e.obs.ok.c[n] = c
                    ELSE IF polys[n] = <<>> THEN e.obs.ok.c[n] = <<NANQ, NANQ>>
                    ELSE IsConvex(polys[n]) => Centroid4OK(e.obs.ok.c4[n], polys[n])
    [] name = "RavelOrder" ->
         Is(e, "Ravel") =>
            LET v == ww.vars[VarByName(ww, e.var)]  V == RavelView(ww, v)  R == e.obs.ok
            IN /\ R.data = ShiftSeq(V.data) /\ R.shape = V.shape
               /\ Len(R.dims) = Len(V.dims) + 1 /\ SubSeq(R.dims, 1, Len(V.dims)) = V.dims
    [] name = "SelectOrder" ->
         Is(e, "SelectIndex") =>
            /\ VarNames(ww, SelVars(ww, e.kind)) \subseteq NamesOf(e.obs.ok.vars)
            /\ \A i \in SelVars(ww, e.kind) :
                 LET V == SelectView(ww, ww.vars[i], e.n)  R == ObsVar(e.obs.ok.vars, ww.vars[i].name)
                 IN R.dims = V.dims /\ R.shape = V.shape /\ R.data = ShiftSeq(V.data)
    [] name = "GeometryAbsent" ->
         \* whatever is selected (one index, several, points, a table): none of the variables that make up the geometry of
         \* the dataset - held as data variables or as coordinates - is part of the answer
         (Ok(e) /\ e.a \in {"SelectIndex", "SelectIndexes", "SelectPoints", "ExtractDF"} /\ "geomnames" \in DOMAIN ww
                /\ "allnames" \in DOMAIN e.obs.ok) =>
            Range1(e.obs.ok.allnames) \cap Range1(ww.geomnames) = {}
    [] name = "SelectAbsent" ->
         Is(e, "SelectIndex") => VarNames(ww, AbsentVars(ww, e.kind)) \cap NamesOf(e.obs.ok.vars) = {}
    [] name = "HitsArePositions" ->
         (Is(e, "Query") /\ clean) =>
            /\ {e.obs.ok[k] : k \in 1..Len(e.obs.ok)} = Hits(<<e.p[1], e.p[2]>>)
            /\ Len(e.obs.ok) = Cardinality(Hits(<<e.p[1], e.p[2]>>))
    [] name = "SpatialIndexItems" ->
         \* the deprecated spatial_index: the refined hits are the same positions, each item carrying that position's
         \* native index and polygon
         (Is(e, "SpatialIndex") /\ clean) =>
            /\ {e.obs.ok[k].linear : k \in 1..Len(e.obs.ok)} = Hits(<<e.p[1], e.p[2]>>)
            /\ Len(e.obs.ok) = Cardinality(Hits(<<e.p[1], e.p[2]>>))
            /\ \A k \in 1..Len(e.obs.ok) :
                 LinearInRange(ww, "face", e.obs.ok[k].linear) =>
                    /\ e.obs.ok[k].native = WindIndex(ww, "face", e.obs.ok[k].linear)
                    /\ SameRing(e.obs.ok[k].poly, polys[e.obs.ok[k].linear + 1])
    \* ------------------------------------------------------------ C04
    [] name = "IffIntersects" ->
         (Is(e, "Lookup") /\ clean) => (e.obs.ok.hit <=> Hits(<<e.p[1], e.p[2]>>) # {})
    [] name = "LowestIndex" ->
         (Is(e, "Lookup") /\ clean /\ e.obs.ok.hit) => e.obs.ok.linear = Least(Hits(<<e.p[1], e.p[2]>>))
    [] name = "Coherent" ->
         (Is(e, "Lookup") /\ e.obs.ok.hit) =>
            /\ LinearInRange(ww, "face", e.obs.ok.linear)
            /\ e.obs.ok.native = WindIndex(ww, "face", e.obs.ok.linear)
            /\ SameRing(e.obs.ok.poly, polys[e.obs.ok.linear + 1])
    [] name = "NeverAHole" ->
         (Is(e, "Lookup") /\ e.obs.ok.hit) =>
            (LinearInRange(ww, "face", e.obs.ok.linear) /\ polys[e.obs.ok.linear + 1] # <<>> /\ e.obs.ok.poly # <<>>)
    [] name = "SelectPointMatches" ->
         (e.a = "SelectPoint" /\ clean) =>
            LET n == Least(Hits(<<e.p[1], e.p[2]>>))
            IN IF n < 0 THEN "err" \in DOMAIN e.obs
               ELSE /\ Ok(e)
                    /\ VarNames(ww, SelVars(ww, "face")) \subseteq NamesOf(e.obs.ok.vars)
                    /\ \A i \in SelVars(ww, "face") :
                         LET V == SelectView(ww, ww.vars[i], n)  R == ObsVar(e.obs.ok.vars, ww.vars[i].name)
                         IN R.dims = V.dims /\ R.shape = V.shape /\ R.data = ShiftSeq(V.data)
    \* ------------------------------------------------------------ C05
    [] name = "IndexesValues" -> Is(e, "SelectIndexes") => ManyOK(ww, e.kind, e.ns, DimOf(ww, e), e.obs.ok.vars)
    [] name = "IndexesAbsent" ->
         (Ok(e) /\ e.a \in {"SelectIndexes", "SelectPoints", "ExtractDF"}) =>
            VarNames(ww, AbsentVars(ww, IF e.a = "SelectIndexes" THEN e.kind ELSE "face")) \cap NamesOf(e.obs.ok.vars) = {}
    [] name = "DtypeKept" ->
         (Ok(e) /\ e.a \in {"SelectIndex", "SelectIndexes"}) =>
            \A i \in SelectedVars(ww, e.kind) :
               HasVar(e.obs.ok.vars, ww.vars[i].name) => ObsVar(e.obs.ok.vars, ww.vars[i].name).dtype = ww.vars[i].dtype
    [] name = "PointsError" ->
         (e.a \in {"SelectPoints", "ExtractDF"} /\ e.policy = "error" /\ clean) =>
            LET ns == [k \in 1..Len(e.ps) |-> Least(Hits(<<e.ps[k][1], e.ps[k][2]>>))]
                miss == {k - 1 : k \in {k \in 1..Len(ns) : ns[k] < 0}}
            IN IF miss = {} THEN Ok(e) /\ ManyOK(ww, "face", ns, DimOf(ww, e), e.obs.ok.vars)
               ELSE /\ "err" \in DOMAIN e.obs /\ e.obs.err = "NonIntersectingPoints"
                    /\ {e.obs.indexes[k] : k \in 1..Len(e.obs.indexes)} = miss
                    /\ Len(e.obs.indexes) = Cardinality(miss)
    [] name = "PointsDrop" ->
         (e.a \in {"SelectPoints", "ExtractDF"} /\ e.policy = "drop" /\ clean) =>
            LET ns == [k \in 1..Len(e.ps) |-> Least(Hits(<<e.ps[k][1], e.ps[k][2]>>))]
                keep == SelectSeq([k \in 1..Len(ns) |-> k], LAMBDA k : ns[k] >= 0)
            IN keep # <<>> =>
                 /\ Ok(e)
                 /\ e.obs.ok.labels = [m \in 1..Len(keep) |-> keep[m] - 1]       \* original positions
                 /\ ManyOK(ww, "face", [m \in 1..Len(keep) |-> ns[keep[m]]], DimOf(ww, e), e.obs.ok.vars)
    [] name = "PointsFill" ->
         (e.a = "ExtractDF" /\ e.policy = "fill" /\ clean) =>
            LET ns == [k \in 1..Len(e.ps) |-> Least(Hits(<<e.ps[k][1], e.ps[k][2]>>))]
            IN (\E k \in 1..Len(ns) : ns[k] >= 0) =>
                 /\ Ok(e)
                 /\ e.obs.ok.labels = [k \in 1..Len(ns) |-> k - 1]
                 /\ ManyOK(ww, "face", ns, DimOf(ww, e), e.obs.ok.vars)
    [] name = "FrameColumns" ->
         (Is(e, "ExtractDF")) => e.obs.ok.cols = e.expectcols

    \* ------------------------------------------------------------ C15
    [] name = "ExportCells" ->
         (Is(e, "Export") /\ clean) =>
            /\ Len(e.obs.ok.features) = Len(ValidSeq)              \* exactly the cells that have polygons
            /\ \A k \in 1..Len(e.obs.ok.features) :               \* in linear order, identical coordinates
                 k <= Len(ValidSeq) => SameRing(e.obs.ok.features[k].coords, polys[ValidSeq[k] + 1])
    [] name = "ExportIndexes" ->
         (Is(e, "Export") /\ clean /\ e.fmt \in {"geojson", "shapefile"}) =>
            \A k \in 1..Len(e.obs.ok.features) :
               LET f == e.obs.ok.features[k]
               IN /\ k <= Len(ValidSeq) => f.linear = ValidSeq[k]
                  /\ LinearInRange(ww, "face", f.linear)
                  /\ f.native = WindIndex(ww, "face", f.linear)           \* both indexes name the same cell ...
                  /\ SameRing(f.coords, polys[f.linear + 1])              \* ... and it is this feature's cell
    \* ------------------------------------------------------------ C19
    [] name = "PatchPerValidCell" ->
         (Is(e, "PolyCollection") /\ clean) =>
            /\ Len(e.obs.ok.paths) = Len(ValidSeq)
            /\ \A k \in 1..Len(e.obs.ok.paths) : k <= Len(ValidSeq) => SameRing(e.obs.ok.paths[k], polys[ValidSeq[k] + 1])
    [] name = "ValuePairs" ->
         (Is(e, "PolyCollection") /\ clean /\ e.var # "" /\ e.refuse = "") =>
            /\ e.obs.ok.hasarray
            /\ e.obs.ok.array = [k \in 1..Len(ValidSeq) |-> FaceTag(ww, PlotVar(ww, e), ValidSeq[k])]
    [] name = "ClimSpansValues" ->
         (Is(e, "PolyCollection") /\ clean /\ e.var # "" /\ e.refuse = "" /\ Len(e.clim) = 0) =>
            LET vals == NonMissing({FaceTag(ww, PlotVar(ww, e), ValidSeq[k]) : k \in 1..Len(ValidSeq)})
            IN vals # {} => e.obs.ok.clim = <<SetMin(vals), SetMax(vals)>>
    [] name = "OverridesRespected" ->
         Is(e, "PolyCollection") =>
            /\ (Len(e.clim) = 2 => e.obs.ok.clim = e.clim)
            /\ (e.var = "" /\ Len(e.array) > 0 => e.obs.ok.array = e.array)
            /\ (e.var = "" /\ Len(e.array) = 0 => ~e.obs.ok.hasarray)
            /\ e.obs.ok.transform = (IF e.transform THEN "given" ELSE "default")
    [] name = "Refused" ->
         \* leftover non-spatial dimensions, or data_array together with array=
         (e.a \in {"PolyCollection", "Quiver"} /\ e.refuse # "") => "err" \in DOMAIN e.obs
    [] name = "QuiverPairs" ->
         (Is(e, "Quiver") /\ e.refuse = "") =>
            /\ Len(e.obs.ok.xy) = Len(polys)
            /\ \A n \in 1..Len(polys) :
                 LET c == CentreAt(ww, n - 1)
                 IN (c # <<NANQ, NANQ>> \/ ~IsUGrid(ww)) => e.obs.ok.xy[n] = c
            \* an arrow is masked iff one of its components is missing; otherwise it carries its own cell's components
            /\ IF e.u = "" THEN \A n \in 1..Len(e.obs.ok.mask) : e.obs.ok.mask[n]
               ELSE /\ Len(e.obs.ok.u) = Len(polys) /\ Len(e.obs.ok.v) = Len(polys) /\ Len(e.obs.ok.mask) = Len(polys)
                    /\ \A n \in 1..Len(polys) :
                         LET tu == FaceTag(ww, ww.vars[VarByName(ww, e.u)], n - 1)
                             tv == FaceTag(ww, ww.vars[VarByName(ww, e.v)], n - 1)
                         IN /\ e.obs.ok.mask[n] = (tu = MISSING \/ tv = MISSING)
                            /\ ~e.obs.ok.mask[n] => (e.obs.ok.u[n] = tu /\ e.obs.ok.v[n] = tv)

Failing(ww, e) == {name \in ClauseNames : ~Clause(name, ww, e)}

SeenOf(ww, e) ==
  {e.a, ww.conv}
  \cup (IF "on" \in DOMAIN e THEN {"on-" \o e.on} ELSE {})
  \cup (IF "via" \in DOMAIN ww THEN {"held-" \o ww.via} ELSE {})
  \cup (IF woff # 0 /\ e.a # "Mutate" THEN {"after-mutation"} ELSE {})
  \cup (IF ~clean THEN {"degenerate-skipped"} ELSE {})
  \cup (IF \E n \in 1..Len(polys) : polys[n] = <<>> THEN {"holes"} ELSE {})
  \cup (IF e.a \in {"Lookup", "Query"} /\ clean THEN
          (LET h == Hits(<<e.p[1], e.p[2]>>)
           IN (IF h = {} THEN {"miss"} ELSE {"hit"}) \cup (IF Cardinality(h) > 1 THEN {"tie"} ELSE {})
              \cup (IF Cardinality(h) >= 3 THEN {"vertex-tie"} ELSE {})
              \cup (IF h # {} /\ SetMin(h) > 10 THEN {"beyond-one-leaf"} ELSE {}))
        ELSE {})
  \cup (IF e.a \in {"SelectPoints", "ExtractDF"} THEN {"policy-" \o e.policy} ELSE {})
  \cup (IF "default_dim" \in DOMAIN e THEN {"default-dim"} ELSE {})
  \cup (IF "default_dim" \in DOMAIN e /\ DimOf(ww, e) \notin {"index", "point"} THEN {"default-dim-collision"} ELSE {})
  \cup (IF e.a \in {"SelectPoints", "ExtractDF"} /\ "err" \in DOMAIN e.obs THEN {"points-error-raised"} ELSE {})
  \cup (IF e.a \in {"SelectPoints", "ExtractDF"} /\ clean /\ Len(e.ps) > 1
        THEN (LET miss == {k \in 1..Len(e.ps) : Least(Hits(<<e.ps[k][1], e.ps[k][2]>>)) < 0}
              IN (IF miss = {1} THEN {"only-first-missing"} ELSE {}) \cup (IF miss = {Len(e.ps)} THEN {"only-last-missing"} ELSE {}))
        ELSE {})
  \cup (IF e.a \in {"SelectIndex", "SelectIndexes"} THEN {"kind-" \o e.kind} ELSE {})
  \cup (IF e.a = "Export" THEN {"fmt-" \o e.fmt} ELSE {})
  \cup (IF e.a = "Export" /\ "via" \in DOMAIN e THEN {"via-" \o e.via} ELSE {})
  \cup (IF e.a \in {"PolyCollection", "Quiver"} /\ e.refuse # "" THEN {"refuse-" \o e.refuse} ELSE {})
  \cup (IF e.a = "PolyCollection" /\ Len(e.clim) = 2 THEN {"clim-override"} ELSE {})
  \cup (IF e.a = "PolyCollection" /\ e.transform THEN {"transform-override"} ELSE {})
  \cup (IF e.a = "PolyCollection" /\ e.var = "" /\ Len(e.array) > 0 THEN {"array-override"} ELSE {})
  \cup (IF e.a = "PolyCollection" /\ e.var # "" THEN {"mode-" \o e.mode} ELSE {})
  \cup (IF e.a = "Quiver" /\ e.u = "" THEN {"quiver-empty"} ELSE {})
  \cup (IF e.a = "SelectIndexes" /\ \E a, b \in 1..Len(e.ns) : a # b /\ e.ns[a] = e.ns[b] THEN {"repeats"} ELSE {})

Done == t > Len(Log)
TInit == /\ t = 1 /\ l = 1 /\ fails = {} /\ seen = {} /\ woff = 0
         /\ polys = IF Len(Log) > 0 THEN PolysOf(Log[1].w) ELSE <<>>
         /\ clean = IF Len(Log) > 0 THEN CleanOf(Log[1].w) ELSE TRUE
Advance ==
  IF l < Len(Rec.events)
  THEN /\ l' = l + 1 /\ t' = t /\ UNCHANGED <<polys, clean>>
       /\ woff' = IF Ev.a = "Mutate" THEN woff + Ev.off ELSE woff
  ELSE /\ l' = 1 /\ t' = t + 1 /\ woff' = 0
       /\ polys' = IF t + 1 <= Len(Log) THEN PolysOf(Log[t + 1].w) ELSE <<>>
       /\ clean' = IF t + 1 <= Len(Log) THEN CleanOf(Log[t + 1].w) ELSE TRUE
Step ==
  /\ ~Done
  /\ fails' = fails \cup {<<Rec.tid, l, name>> : name \in Failing(W0, Ev)}
  /\ seen' = seen \cup SeenOf(W0, Ev)
  /\ Advance
TSpec == TInit /\ [][Step]_tvars

Verdict == [records |-> Len(Log), fails |-> SetToSeq(fails), seen |-> SetToSeq(seen), missing |-> <<>>]
EmitVerdict == Done => JsonSerialize(IOEnv.VERDICT_FILE, Verdict)
=============================================================================
