----------------------------- MODULE Trace_Cells -----------------------------
(***************************************************************************)
(* Trace validation for C02, C04 and C05 (and the cell-order clauses other *)
(* properties reuse): recorded accessor results against the views of       *)
(* Cells.tla.  `polys` caches the world's cell polygons for the record     *)
(* being replayed.                                                         *)
(***************************************************************************)
EXTENDS Cells, TLC, Json, IOUtils, TLCExt

Log == ndJsonDeserialize(IOEnv.TRACE_FILE)

VARIABLES t, l, fails, seen, polys, clean
tvars == <<t, l, fails, seen, polys, clean>>
Rec == Log[t]
Ev  == Log[t].events[l]
W0  == Log[t].w

PolysOf(ww) == [n \in 1..FaceCount(ww) |-> PolyAt(ww, n - 1)]
CleanOf(ww) == \A n \in 0..(FaceCount(ww) - 1) : ~Degenerate(RawPoly(ww, n))

Ok(e) == "ok" \in DOMAIN e.obs
Is(e, a) == e.a = a /\ Ok(e)

Hits(p) == {n \in 0..(Len(polys) - 1) : polys[n + 1] # <<>> /\ PointInClosedPoly(p, polys[n + 1])}
Least(S) == IF S = {} THEN -1 ELSE SetMin(S)

ObsVar(vs, nm) == vs[CHOOSE k \in 1..Len(vs) : vs[k].name = nm]
HasVar(vs, nm) == \E k \in 1..Len(vs) : vs[k].name = nm
NamesOf(vs) == {vs[k].name : k \in 1..Len(vs)}
VarNames(ww, S) == {ww.vars[i].name : i \in S}

\* scaled (x4) centroid inside own convex cell
Centroid4OK(c4, Pg) == PointInClosedPoly(c4, [k \in 1..Len(Pg) |-> <<4 * Pg[k][1], 4 * Pg[k][2]>>])

\* values of all variables on grid kind k selected at the cells ns (request order), -1 = miss
ManyOK(ww, k, ns, dimname, vs) ==
  /\ VarNames(ww, SelectedVars(ww, k)) \subseteq NamesOf(vs)
  /\ \A i \in SelectedVars(ww, k) : SelectManyOK(ww, ww.vars[i], ns, dimname, ObsVar(vs, ww.vars[i].name))

\* the request dimension: given, or the first unused name with the documented prefix
DimOf(ww, e) ==
  IF "default_dim" \in DOMAIN e
  THEN FindUnusedStr(IF e.a = "SelectIndexes" THEN "index" ELSE "point", Range1(ww.alldims))
  ELSE e.dim

ClauseNames == {"Completed", "PolyOrder", "CentreOrder", "RavelOrder", "SelectOrder", "SelectAbsent", "HitsArePositions",
                "IffIntersects", "LowestIndex", "Coherent", "NeverAHole", "SelectPointMatches",
                "IndexesValues", "IndexesAbsent", "DtypeKept", "PointsError", "PointsDrop", "PointsFill", "FrameColumns"}

Clause(name, ww, e) ==
  CASE name = "Completed" -> Ok(e) \/ e.a \in {"SelectPoint", "SelectPoints", "ExtractDF"}
    \* ------------------------------------------------------------ C02
    [] name = "PolyOrder" ->
         Is(e, "Polygons") =>
            /\ Len(e.obs.ok.polys) = Len(polys)
            /\ \A n \in 1..Len(polys) : Degenerate(RawPoly(ww, n - 1)) \/ SameRing(e.obs.ok.polys[n], polys[n])
    [] name = "CentreOrder" ->
         Is(e, "Centres") =>
            /\ Len(e.obs.ok.c) = Len(polys)
            /\ \A n \in 1..Len(polys) :
                 LET c == CentreAt(ww, n - 1)
                 IN IF c # <<NANQ, NANQ>> \/ ~IsUGrid(ww) THEN e.obs.ok.c[n] = c
                    ELSE IF polys[n] = <<>> THEN e.obs.ok.c[n] = <<NANQ, NANQ>>
                    ELSE IsConvex(polys[n]) => Centroid4OK(e.obs.ok.c4[n], polys[n])
    [] name = "RavelOrder" ->
         Is(e, "Ravel") =>
            LET v == ww.vars[VarByName(ww, e.var)]  V == RavelView(ww, v)  R == e.obs.ok
            IN /\ R.data = V.data /\ R.shape = V.shape
               /\ Len(R.dims) = Len(V.dims) + 1 /\ SubSeq(R.dims, 1, Len(V.dims)) = V.dims
    [] name = "SelectOrder" ->
         Is(e, "SelectIndex") =>
            /\ VarNames(ww, SelectedVars(ww, e.kind)) \subseteq NamesOf(e.obs.ok.vars)
            /\ \A i \in SelectedVars(ww, e.kind) :
                 LET V == SelectView(ww, ww.vars[i], e.n)  R == ObsVar(e.obs.ok.vars, ww.vars[i].name)
                 IN R.dims = V.dims /\ R.shape = V.shape /\ R.data = V.data
    [] name = "SelectAbsent" ->
         Is(e, "SelectIndex") => VarNames(ww, AbsentVars(ww, e.kind)) \cap NamesOf(e.obs.ok.vars) = {}
    [] name = "HitsArePositions" ->
         (Is(e, "Query") /\ clean) =>
            /\ {e.obs.ok[k] : k \in 1..Len(e.obs.ok)} = Hits(<<e.p[1], e.p[2]>>)
            /\ Len(e.obs.ok) = Cardinality(Hits(<<e.p[1], e.p[2]>>))
    \* ------------------------------------------------------------ C04
    [] name = "IffIntersects" ->
         (Is(e, "Lookup") /\ clean) => (e.obs.ok.hit <=> Hits(<<e.p[1], e.p[2]>>) # {})
    [] name = "LowestIndex" ->
         (Is(e, "Lookup") /\ clean /\ e.obs.ok.hit) => e.obs.ok.linear = Least(Hits(<<e.p[1], e.p[2]>>))
    [] name = "Coherent" ->
         (Is(e, "Lookup") /\ e.obs.ok.hit) =>
            /\ LinearInRange(ww, "face", e.obs.ok.linear)
            /\ e.obs.ok.native = WindIndex(ww, "face", e.obs.ok.linear)
            /\ SameRing(e.obs.ok.poly, polys[e.obs.ok.linear + 1])
    [] name = "NeverAHole" ->
         (Is(e, "Lookup") /\ e.obs.ok.hit) =>
            (LinearInRange(ww, "face", e.obs.ok.linear) /\ polys[e.obs.ok.linear + 1] # <<>> /\ e.obs.ok.poly # <<>>)
    [] name = "SelectPointMatches" ->
         (e.a = "SelectPoint" /\ clean) =>
            LET n == Least(Hits(<<e.p[1], e.p[2]>>))
            IN IF n < 0 THEN "err" \in DOMAIN e.obs
               ELSE /\ Ok(e)
                    /\ VarNames(ww, SelectedVars(ww, "face")) \subseteq NamesOf(e.obs.ok.vars)
                    /\ \A i \in SelectedVars(ww, "face") :
                         LET V == SelectView(ww, ww.vars[i], n)  R == ObsVar(e.obs.ok.vars, ww.vars[i].name)
                         IN R.dims = V.dims /\ R.shape = V.shape /\ R.data = V.data
    \* ------------------------------------------------------------ C05
    [] name = "IndexesValues" -> Is(e, "SelectIndexes") => ManyOK(ww, e.kind, e.ns, DimOf(ww, e), e.obs.ok.vars)
    [] name = "IndexesAbsent" ->
         (Ok(e) /\ e.a \in {"SelectIndexes", "SelectPoints", "ExtractDF"}) =>
            VarNames(ww, AbsentVars(ww, IF e.a = "SelectIndexes" THEN e.kind ELSE "face")) \cap NamesOf(e.obs.ok.vars) = {}
    [] name = "DtypeKept" ->
         (Ok(e) /\ e.a \in {"SelectIndex", "SelectIndexes"}) =>
            \A i \in SelectedVars(ww, e.kind) :
               HasVar(e.obs.ok.vars, ww.vars[i].name) => ObsVar(e.obs.ok.vars, ww.vars[i].name).dtype = ww.vars[i].dtype
    [] name = "PointsError" ->
         (e.a \in {"SelectPoints", "ExtractDF"} /\ e.policy = "error" /\ clean) =>
            LET ns == [k \in 1..Len(e.ps) |-> Least(Hits(<<e.ps[k][1], e.ps[k][2]>>))]
                miss == {k - 1 : k \in {k \in 1..Len(ns) : ns[k] < 0}}
            IN IF miss = {} THEN Ok(e) /\ ManyOK(ww, "face", ns, DimOf(ww, e), e.obs.ok.vars)
               ELSE /\ "err" \in DOMAIN e.obs /\ e.obs.err = "NonIntersectingPoints"
                    /\ {e.obs.indexes[k] : k \in 1..Len(e.obs.indexes)} = miss
                    /\ Len(e.obs.indexes) = Cardinality(miss)
    [] name = "PointsDrop" ->
         (e.a \in {"SelectPoints", "ExtractDF"} /\ e.policy = "drop" /\ clean) =>
            LET ns == [k \in 1..Len(e.ps) |-> Least(Hits(<<e.ps[k][1], e.ps[k][2]>>))]
                keep == SelectSeq([k \in 1..Len(ns) |-> k], LAMBDA k : ns[k] >= 0)
            IN keep # <<>> =>
                 /\ Ok(e)
                 /\ e.obs.ok.labels = [m \in 1..Len(keep) |-> keep[m] - 1]       \* original positions
                 /\ ManyOK(ww, "face", [m \in 1..Len(keep) |-> ns[keep[m]]], DimOf(ww, e), e.obs.ok.vars)
    [] name = "PointsFill" ->
         (e.a = "ExtractDF" /\ e.policy = "fill" /\ clean) =>
            LET ns == [k \in 1..Len(e.ps) |-> Least(Hits(<<e.ps[k][1], e.ps[k][2]>>))]
            IN (\E k \in 1..Len(ns) : ns[k] >= 0) =>
                 /\ Ok(e)
                 /\ e.obs.ok.labels = [k \in 1..Len(ns) |-> k - 1]
                 /\ ManyOK(ww, "face", ns, DimOf(ww, e), e.obs.ok.vars)
    [] name = "FrameColumns" ->
         (Is(e, "ExtractDF")) => e.obs.ok.cols = e.expectcols

Failing(ww, e) == {name \in ClauseNames : ~Clause(name, ww, e)}

SeenOf(ww, e) ==
  {e.a, ww.conv}
  \cup (IF ~clean THEN {"degenerate-skipped"} ELSE {})
  \cup (IF \E n \in 1..Len(polys) : polys[n] = <<>> THEN {"holes"} ELSE {})
  \cup (IF e.a \in {"Lookup", "Query"} /\ clean THEN
          (LET h == Hits(<<e.p[1], e.p[2]>>)
           IN (IF h = {} THEN {"miss"} ELSE {"hit"}) \cup (IF Cardinality(h) > 1 THEN {"tie"} ELSE {})
              \cup (IF Cardinality(h) >= 3 THEN {"vertex-tie"} ELSE {})
              \cup (IF h # {} /\ SetMin(h) > 10 THEN {"beyond-one-leaf"} ELSE {}))
        ELSE {})
  \cup (IF e.a \in {"SelectPoints", "ExtractDF"} THEN {"policy-" \o e.policy} ELSE {})
  \cup (IF "default_dim" \in DOMAIN e THEN {"default-dim"} ELSE {})
  \cup (IF "default_dim" \in DOMAIN e /\ DimOf(ww, e) \notin {"index", "point"} THEN {"default-dim-collision"} ELSE {})
  \cup (IF e.a \in {"SelectPoints", "ExtractDF"} /\ "err" \in DOMAIN e.obs THEN {"points-error-raised"} ELSE {})
  \cup (IF e.a \in {"SelectIndex", "SelectIndexes"} THEN {"kind-" \o e.kind} ELSE {})
  \cup (IF e.a = "SelectIndexes" /\ \E a, b \in 1..Len(e.ns) : a # b /\ e.ns[a] = e.ns[b] THEN {"repeats"} ELSE {})

Done == t > Len(Log)
TInit == /\ t = 1 /\ l = 1 /\ fails = {} /\ seen = {}
         /\ polys = IF Len(Log) > 0 THEN PolysOf(Log[1].w) ELSE <<>>
         /\ clean = IF Len(Log) > 0 THEN CleanOf(Log[1].w) ELSE TRUE
Advance ==
  IF l < Len(Rec.events) THEN l' = l + 1 /\ t' = t /\ UNCHANGED <<polys, clean>>
  ELSE /\ l' = 1 /\ t' = t + 1
       /\ polys' = IF t + 1 <= Len(Log) THEN PolysOf(Log[t + 1].w) ELSE <<>>
       /\ clean' = IF t + 1 <= Len(Log) THEN CleanOf(Log[t + 1].w) ELSE TRUE
Step ==
  /\ ~Done
  /\ fails' = fails \cup {<<Rec.tid, l, name>> : name \in Failing(W0, Ev)}
  /\ seen' = seen \cup SeenOf(W0, Ev)
  /\ Advance
TSpec == TInit /\ [][Step]_tvars

Verdict == [records |-> Len(Log), fails |-> SetToSeq(fails), seen |-> SetToSeq(seen), missing |-> <<>>]
EmitVerdict == Done => JsonSerialize(IOEnv.VERDICT_FILE, Verdict)
=============================================================================
