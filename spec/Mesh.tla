------------------------------- MODULE Mesh -------------------------------
(***************************************************************************)
(* UGRID 2-D mesh topology.                                                *)
(*                                                                         *)
(* Normalised tables are sequences of rows; a row is a sequence of 0-based *)
(* indexes padded with -1 (missing).  fn = face-node, en = edge-node,      *)
(* fe = face-edge, ef = edge-face, ff = face-face.                         *)
(*                                                                         *)
(* Encodings: how a file stores a table -- index base 0/1, missing entries *)
(* as an integer _FillValue, as NaN (float typed table), or not needed;    *)
(* either dimension first.  Normalise is the reader (Mesh2DTopology.       *)
(* _to_index_array), Encode the writer; derived tables are RELATIONS so    *)
(* that the numbering of derived edges stays free.                         *)
(***************************************************************************)
EXTENDS Naturals, Integers, Sequences, FiniteSets, SequencesExt, FiniteSetsExt

Present(row) == SelectSeq(row, LAMBDA x : x >= 0)

\* consecutive node pairs of a face (as sets {a, b}), cyclically
PairSeq(face) == LET f == Present(face) IN [k \in 1..Len(f) |-> {f[k], f[(k % Len(f)) + 1]}]
PairSet(face) == ToSet(PairSeq(face))
AllPairs(fn) == UNION {PairSet(fn[i]) : i \in 1..Len(fn)}
EdgeNodes(en, e) == {en[e + 1][1], en[e + 1][2]}        \* e 0-based

\* ---------------------------------------------------------------- relations
\* en lists exactly the consecutive node pairs of the faces, each once
IsEdgeNodeFor(fn, en) ==
  /\ {EdgeNodes(en, e) : e \in 0..(Len(en) - 1)} = AllPairs(fn)
  /\ Len(en) = Cardinality(AllPairs(fn))

\* a face's edges are its consecutive node pairs
FaceEdgesAreConsecutivePairs(fn, en, fe) ==
  /\ Len(fe) = Len(fn)                              \* one row per face
  /\ \A i \in 1..Len(fn) :
     /\ Len(Present(fe[i])) = Len(Present(fn[i]))
     /\ \A e \in ToSet(Present(fe[i])) : e < Len(en)
     /\ {EdgeNodes(en, e) : e \in ToSet(Present(fe[i]))} = PairSet(fn[i])

\* an edge lists exactly the faces that contain it
EdgeFacesExactlyContaining(fn, en, ef) ==
  /\ Len(ef) = Len(en)                              \* one row per edge: no phantom rows, none missing
  /\ \A e \in 0..(Len(en) - 1) :
     ToSet(Present(ef[e + 1])) = {i - 1 : i \in {i \in 1..Len(fn) : EdgeNodes(en, e) \in PairSet(fn[i])}}

\* face adjacency is symmetric and means sharing an edge
FaceFaceSymmetricEdgeSharing(fn, ff) ==
  /\ Len(ff) = Len(fn)
  /\ \A i \in 1..Len(fn) :
     \* (a neighbour sharing two edges may be listed once per shared edge: the property speaks of the set)
     ToSet(Present(ff[i])) = {j - 1 : j \in {j \in 1..Len(fn) : j # i /\ PairSet(fn[i]) \cap PairSet(fn[j]) # {}}}

\* a valid 2-D mesh: every edge in at most two faces, faces have >= 3 distinct nodes
ValidMesh(fn) ==
  /\ \A i \in 1..Len(fn) : Len(Present(fn[i])) >= 3 /\ Cardinality(ToSet(Present(fn[i]))) = Len(Present(fn[i]))
  /\ \A p \in AllPairs(fn) : Cardinality({i \in 1..Len(fn) : p \in PairSet(fn[i])}) <= 2

\* ------------------------------------------------------------- derivations
\* (operational, mirroring make_edge_node_array / make_face_edge_array /
\*  make_edge_face_array / make_face_face_array, with an arbitrary but fixed
\*  enumeration of the edge set)
SortedPair(p) == LET a == CHOOSE a \in p : \A b \in p : a <= b
                     b == CHOOSE b \in p : \A a2 \in p : b >= a2
                 IN <<a, b>>
DeriveEN(fn) == LET ps == SetToSeq(AllPairs(fn)) IN [k \in 1..Len(ps) |-> SortedPair(ps[k])]
EdgeIndexOf(en, p) == (CHOOSE e \in 1..Len(en) : {en[e][1], en[e][2]} = p) - 1
Pad(row, n) == row \o [k \in 1..(n - Len(row)) |-> -1]
MaxNodes(fn) == Len(fn[1])
DeriveFE(fn, en) ==
  [i \in 1..Len(fn) |-> Pad([k \in 1..Len(PairSeq(fn[i])) |-> EdgeIndexOf(en, PairSeq(fn[i])[k])], MaxNodes(fn))]
DeriveEF(fn, fe, nedge) ==
  [e \in 1..nedge |->
     LET faces == SelectSeq([i \in 1..Len(fn) |-> i - 1], LAMBDA i : (e - 1) \in ToSet(Present(fe[i + 1])))
     IN Pad(faces, 2)]
DeriveFF(fn, ef) ==
  [i \in 1..Len(fn) |->
     LET nb == SelectSeq([e \in 1..Len(ef) |-> e],
                         LAMBDA e : Len(Present(ef[e])) = 2 /\ (i - 1) \in ToSet(ef[e]))
     IN Pad([k \in 1..Len(nb) |-> CHOOSE j \in ToSet(ef[nb[k]]) : j # i - 1], MaxNodes(fn))]

\* ---------------------------------------------------------------- encodings
FILL == 999999
NaN  == 1000000      \* stands for a NaN entry of a float typed table

Transpose2(tbl) == IF Len(tbl) = 0 THEN tbl ELSE [c \in 1..Len(tbl[1]) |-> [r \in 1..Len(tbl) |-> tbl[r][c]]]

\* writer: base added to present entries; missing written as FILL or NaN
Encode(tbl, base, fillmode, transposed) ==
  LET cells == [r \in 1..Len(tbl) |-> [c \in 1..Len(tbl[r]) |->
                  IF tbl[r][c] >= 0 THEN tbl[r][c] + base
                  ELSE IF fillmode = "nan" THEN NaN ELSE FILL]]
  IN IF transposed THEN Transpose2(cells) ELSE cells

\* reader, as _to_index_array: put the primary dimension first, mask invalid /
\* fill entries, subtract the start index
Normalise(raw, base, fillmode, transposed) ==
  LET rows == IF transposed THEN Transpose2(raw) ELSE raw
  IN [r \in 1..Len(rows) |-> [c \in 1..Len(rows[r]) |->
        IF rows[r][c] = NaN \/ (fillmode # "nan" /\ rows[r][c] = FILL) THEN -1 ELSE rows[r][c] - base]]

\* rows compared ignoring the padding
SameRows(a, b) == Len(a) = Len(b) /\ \A r \in 1..Len(a) : Present(a[r]) = Present(b[r])

=============================================================================
