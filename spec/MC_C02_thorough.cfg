SPECIFICATION Spec
CHECK_DEADLOCK FALSE
INVARIANT LinearOrderShared
INVARIANT HolesKeepSlots
CONSTANT Big = TRUE
