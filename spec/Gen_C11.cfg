SPECIFICATION Spec
CONSTANTS
  WithDerive = FALSE
  Contents <- TheContents
  EntryPoints <- TheEntryPoints
  Extra <- TheExtra
  ConstructClasses <- TheConstruct
  MaxObjs = 2
  MaxConvs = 3
  Depth = 3
INVARIANT Emit
CHECK_DEADLOCK FALSE
