SPECIFICATION TSpec
INVARIANT EmitVerdict
CHECK_DEADLOCK FALSE
