SPECIFICATION Spec
INVARIANT FormIsEms
INVARIANT SameInstant
INVARIANT SameOffset
INVARIANT CivilRoundTrip
INVARIANT DaysInverse
CHECK_DEADLOCK FALSE
