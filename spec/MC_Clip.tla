------------------------------- MODULE MC_Clip -------------------------------
(***************************************************************************)
(* C08 / C09 on a bounded universe.                                        *)
(* Grid part: a 3x3 CF grid with stored bounds and one variable of each    *)
(* fill kind; every non-empty face selection; histories                    *)
(*   MakeMask ; (SaveMask ; LoadMask)? ; Apply(o1 | o2)                    *)
(* Mesh part: a mesh of the lattice family with all five tables; every     *)
(* non-empty face selection; the re-indexed tables must again be a         *)
(* consistent topology.                                                    *)
(***************************************************************************)
EXTENDS Clip, Mesh, TLC

VARIABLES part, mask, file, loaded, res, obj
vars == <<part, mask, file, loaded, res, obj>>

\* ------------------------------------------------------------ grid world
NodeX(i, j) == 24 * (3 * i + j)
NodeY(i, j) == 24 * (2 * j - i)
Cor(F(_, _)) == [j \in 1..3 |-> [i \in 1..3 |-> <<F(i - 1, j - 1), F(i, j - 1), F(i, j), F(i - 1, j)>>]]
Cen(F(_, _)) == [j \in 1..3 |-> [i \in 1..3 |-> (F(i - 1, j - 1) + F(i, j - 1) + F(i, j) + F(i - 1, j)) \div 4]]
V(nm, dims, shape, gp, base, miss, fk) ==
  [name |-> nm, kind |-> IF gp = <<>> THEN "" ELSE "face", dims |-> dims, shape |-> shape, gridpos |-> gp, base |-> base,
   missing |-> miss, geometry |-> FALSE, fillkind |-> fk, dtype |-> "x"]
GW == [conv |-> "cf2d", ny |-> 3, nx |-> 3, nface |-> 0, nnode |-> 0, nedge |-> -1,
       geom |-> [xc |-> Cen(NodeX), yc |-> Cen(NodeY), xb |-> Cor(NodeX), yb |-> Cor(NodeY)], mesh |-> [none |-> 0],
       vars |-> <<V("f", <<"t", "y", "x">>, <<2, 3, 3>>, <<2, 3>>, 100, <<4>>, "float"),
                  V("a", <<"x", "y">>, <<3, 3>>, <<2, 1>>, 200, <<2>>, "attr"),
                  V("n", <<"y", "k", "x">>, <<3, 2, 3>>, <<1, 3>>, 300, <<>>, "none"),
                  V("z", <<"t">>, <<2>>, <<>>, 400, <<>>, "float"),
                  V("p", <<"t", "y">>, <<2, 3>>, <<2, 0>>, 500, <<>>, "float")>>]
Off(o) == IF o = 2 THEN 1000 ELSE 0

\* ------------------------------------------------------------ mesh world
P(i, j) == <<NodeX(i, j), NodeY(i, j)>>
MFN == <<<<0, 1, 4, 3>>, <<1, 2, 5, -1>>, <<1, 5, 4, -1>>, <<3, 4, 7, 6>>, <<4, 5, 8, 7>>>>
MEN == DeriveEN(MFN)
MFE == DeriveFE(MFN, MEN)
MEF == DeriveEF(MFN, MFE, Len(MEN))
MFF == DeriveFF(MFN, MEF)

Selections == (SUBSET (0..8)) \ {{}}
MeshSelections == (SUBSET (0..4)) \ {{}}

Init ==
  /\ part \in {"grid", "mesh"}
  /\ mask = {} /\ file = {} /\ loaded = FALSE /\ res = <<>> /\ obj = 0

MakeMask == /\ mask = {} /\ mask' \in (IF part = "grid" THEN Selections ELSE MeshSelections)
            /\ UNCHANGED <<part, file, loaded, res, obj>>
SaveMask == /\ mask # {} /\ file = {} /\ file' = mask /\ UNCHANGED <<part, mask, loaded, res, obj>>
LoadMask == /\ file # {} /\ ~loaded /\ loaded' = TRUE /\ mask' = file /\ UNCHANGED <<part, file, res, obj>>
Apply ==
  /\ mask # {} /\ res = <<>>
  /\ \E o \in {1, 2} :
       /\ obj' = o
       /\ res' = IF part = "grid" THEN [i \in 1..Len(GW.vars) |-> ApplyGridVar(GW, GW.vars[i], mask, Off(o))]
                 ELSE <<Reindex(MFN, mask, NodesOfFaces(MFN, mask))>>
  /\ UNCHANGED <<part, mask, file, loaded>>
Next == MakeMask \/ SaveMask \/ LoadMask \/ Apply
Spec == Init /\ [][Next]_vars

Applied == res # <<>>
G == part = "grid" /\ Applied
Var(i) == GW.vars[i]
R(i) == res[i]
CropH == Hi(GW, "face", mask, 1) - Lo(GW, "face", mask, 1) + 1
CropW == Hi(GW, "face", mask, 2) - Lo(GW, "face", mask, 2) + 1
ShiftObj(o, x) == IF x = MISSING THEN MISSING ELSE x + Off(o)

\* ------------------------------------------------------------ C08
SelectedKept ==
  G => \A i \in {1, 2, 3} : \A r \in 0..(CropH * CropW - 1) :
          OrigOfResult(GW, mask, r) \in mask =>
             \A ex \in Indices(OtherShape(Var(i))) :
                At(R(i), FullIdx(Var(i), ex, UnravelRM(<<CropH, CropW>>, r))) =
                   ShiftObj(obj, Tag(GW, Var(i), ex, OrigOfResult(GW, mask, r)))
UnselectedBlank ==
  G => \A i \in {1, 2} : \A r \in 0..(CropH * CropW - 1) :
          OrigOfResult(GW, mask, r) \notin mask =>
             \A ex \in Indices(OtherShape(Var(i))) :
                At(R(i), FullIdx(Var(i), ex, UnravelRM(<<CropH, CropW>>, r))) = MISSING
UnmaskableCroppedOnly ==
  G => \A r \in 0..(CropH * CropW - 1) : \A ex \in Indices(OtherShape(Var(3))) :
          At(R(3), FullIdx(Var(3), ex, UnravelRM(<<CropH, CropW>>, r))) =
             ShiftObj(obj, Tag(GW, Var(3), ex, OrigOfResult(GW, mask, r)))
NonSpatialUntouched ==
  G => R(4).shape = Var(4).shape /\ R(4).data = [p \in 1..2 |-> ShiftObj(obj, VarAtIdx(Var(4), <<p - 1>>))]
\* no value from outside the region survives in a maskable variable
NothingLeaks ==
  G => \A i \in {1, 2} : \A p \in 1..Len(R(i).data) :
          R(i).data[p] # MISSING =>
             \E n \in mask : \E ex \in Indices(OtherShape(Var(i))) : R(i).data[p] = ShiftObj(obj, Tag(GW, Var(i), ex, n))
\* the crop is the bounding range of the selection: the first and last row and column of the result hold a selected cell
CropIsTight ==
  G => /\ \A a \in {0, CropH - 1} : \E r \in 0..(CropH * CropW - 1) :
             UnravelRM(<<CropH, CropW>>, r)[1] = a /\ OrigOfResult(GW, mask, r) \in mask
       /\ \A b \in {0, CropW - 1} : \E r \in 0..(CropH * CropW - 1) :
             UnravelRM(<<CropH, CropW>>, r)[2] = b /\ OrigOfResult(GW, mask, r) \in mask
\* a saved and reloaded mask is the same mask
ReloadTransparent == (loaded => mask = file)

\* ------------------------------------------------------------ C09 (mesh)
M == part = "mesh" /\ Applied
KN == NodesOfFaces(MFN, mask)
KE == {x - 1 : x \in {x \in 1..Len(MEN) : \E f \in mask : {MEN[x][1], MEN[x][2]} \in PairSet(MFN[f + 1])}}
RFN == Reindex(MFN, mask, KN)
REN == Reindex(MEN, KE, KN)
RFE == Reindex(MFE, mask, KE)
REF == Reindex(MEF, KE, mask)
RFF == Reindex(MFF, mask, mask)
ClippedMeshConsistent ==
  M => /\ ValidMesh(RFN)
       /\ IsEdgeNodeFor(RFN, REN)
       /\ FaceEdgesAreConsecutivePairs(RFN, REN, RFE)
       /\ EdgeFacesExactlyContaining(RFN, REN, REF)
       /\ FaceFaceSymmetricEdgeSharing(RFN, RFF)
\* entries refer only to surviving elements under the new numbering
EntriesInRange ==
  M => /\ \A r \in 1..Len(RFN) : \A c \in 1..Len(RFN[r]) : RFN[r][c] < Cardinality(KN)
       /\ \A r \in 1..Len(RFF) : \A c \in 1..Len(RFF[r]) : RFF[r][c] < Cardinality(mask)
       /\ \A r \in 1..Len(REF) : \A c \in 1..Len(REF[r]) : REF[r][c] < Cardinality(mask)
       /\ Len(RFN) = Cardinality(mask) /\ Len(REN) = Cardinality(KE)
=============================================================================
