SPECIFICATION TSpec
CONSTANTS
  WithDerive = FALSE
  Contents <- AllContents
  EntryPoints <- TraceEPs
  Extra <- TraceExtra
  ConstructClasses <- TraceConstruct
  MaxObjs = 6
  MaxConvs = 40
  Depth = 1000
INVARIANT EmitVerdict
CHECK_DEADLOCK FALSE
