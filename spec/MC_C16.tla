------------------------------- MODULE MC_C16 -------------------------------
(***************************************************************************)
(* C16  The geometry cache key depends on the geometry and on nothing else. *)
(* (a) the byte stream is injective in the geometry on a universe chosen so *)
(* that plain concatenation WOULD be ambiguous (names a / ab / b, byte      *)
(* strings over {0,1}, shapes with equal products);                         *)
(* (b) an edit system on a dataset = (geometry, other content): edits of    *)
(* data, time steps, global attributes, extra data variables leave the key; *)
(* every single edit of the geometry changes it.                            *)
(***************************************************************************)
EXTENDS CacheKey, TLC

VARIABLES g, other, lastedit
vars == <<g, other, lastedit>>

A == 97  B == 98
Names == {<<A>>, <<A, B>>, <<B>>}
Dtypes == {<<B>>, <<B, B>>}
Shapes == {<<2>>, <<1, 2>>, <<2, 1>>}
Bytes2 == {<<0, 0>>, <<0, 1>>, <<1, 0>>, <<1, 1>>}
Ms == {<<>>, <<B>>}
Vars == [name : Names, dtype : Dtypes, shape : Shapes, bytes : Bytes2, nattrs : {0, 1}, m : Ms]
Var1 == {v \in Vars : (v.nattrs = 0) <=> (v.m = <<>>)}
Trailer(c) == [module |-> <<A>>, class |-> c, version |-> <<B>>]
Classes == {<<A>>, <<A, B>>}
Geom(vs, c) == [vars |-> vs, module |-> <<A>>, class |-> c, version |-> <<B>>]
Universe == {Geom(<<v>>, c) : v \in Var1, c \in Classes}
            \cup {Geom(<<v, u>>, c) : v \in {x \in Var1 : x.shape = <<2>> /\ x.dtype = <<B>>}, u \in {x \in Var1 : x.bytes = <<0, 1>>}, c \in Classes}

Init == g \in {Geom(<<v>>, <<A>>) : v \in {x \in Var1 : x.bytes = <<0, 1>> /\ x.dtype = <<B>>}} /\ other = 0 /\ lastedit = "none"

\* edits that must NOT change the key: they touch `other` only
NonGeom == /\ \E k \in {"EditData", "AddTimeStep", "EditGlobalAttr", "AddDataVar"} : lastedit' = k
           /\ other' = (other + 1) % 3 /\ UNCHANGED g
\* single edits of the geometry
V == g.vars[1]
SetV(v) == [g EXCEPT !.vars[1] = v]
EditGeomValue == \E b \in Bytes2 \ {V.bytes} : g' = SetV([V EXCEPT !.bytes = b]) /\ lastedit' = "EditGeomValue"
ChangeGeomDtype == \E d \in Dtypes \ {V.dtype} : g' = SetV([V EXCEPT !.dtype = d]) /\ lastedit' = "ChangeGeomDtype"
ReshapeSameBytes == \E s \in Shapes \ {V.shape} : g' = SetV([V EXCEPT !.shape = s]) /\ lastedit' = "ReshapeSameBytes"
RenameGeom == \E n \in Names \ {V.name} : g' = SetV([V EXCEPT !.name = n]) /\ lastedit' = "RenameGeom"
AttrEdit == \E mm \in Ms \ {V.m} : g' = SetV([V EXCEPT !.m = mm, !.nattrs = IF mm = <<>> THEN 0 ELSE 1]) /\ lastedit' = "AttrEdit"
ChangeConvention == \E c \in Classes \ {g.class} : g' = [g EXCEPT !.class = c] /\ lastedit' = "ChangeConvention"
GeomEdit == (EditGeomValue \/ ChangeGeomDtype \/ ReshapeSameBytes \/ RenameGeom \/ AttrEdit \/ ChangeConvention) /\ UNCHANGED other
Next == NonGeom \/ GeomEdit
Spec == Init /\ [][Next]_vars

\* (a)
StreamInjective == (lastedit = "none") => Cardinality({Stream(x) : x \in Universe}) = Cardinality(Universe)
\* without the prefixes two different geometries collide: the prefixes are load bearing
PrefixesMatter == (lastedit = "none") => Cardinality({BareStream(x) : x \in Universe}) < Cardinality(Universe)
\* (b)
KeyIffGeometry == [][(Stream(g') = Stream(g)) <=> (g' = g)]_vars
NonGeometryNeverChangesKey == [][(g' = g) => Stream(g') = Stream(g)]_vars
=============================================================================
