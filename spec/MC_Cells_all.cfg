SPECIFICATION Spec
CHECK_DEADLOCK FALSE
INVARIANT LinearOrderShared
INVARIANT HolesKeepSlots
INVARIANT LookupIsLeastHit
INVARIANT NoNearest
INVARIANT SelectionComplete
