------------------------------- MODULE MC_C01 -------------------------------
(***************************************************************************)
(* C01  Native and linear indexes form a bijection on every grid.          *)
(*                                                                         *)
(* State machine: a world is chosen, then index conversions are requested  *)
(* (in range and within a margin outside).  SpecWind / SpecRavel are the   *)
(* operational definitions the implementation is bound to in Trace_C01;    *)
(* the invariants state the property declaratively and are checked here    *)
(* for every world of the bounded universe.                                *)
(***************************************************************************)
EXTENDS Conventions, TLC

CONSTANTS MaxDim,   \* structured grids: ny, nx \in 1..MaxDim
          MaxUG,    \* meshes: face / node / edge counts up to MaxUG
          Margin    \* how far outside the grid indexes are probed

VARIABLES w, out
vars == <<w, out>>

Structured == {"cf1d", "cf2d", "shoc_simple", "shoc_standard", "arakawa"}

World(c, a, b, f, n, e) ==
  [conv |-> c, ny |-> a, nx |-> b, nface |-> f, nnode |-> n, nedge |-> e]

Worlds ==
  {World(c, a, b, 0, 0, -1) : c \in Structured, a \in 1..MaxDim, b \in 1..MaxDim}
  \cup {World("ugrid", 0, 0, f, n, e) :
          f \in 1..MaxUG, n \in 3..MaxUG, e \in {-1} \cup (3..MaxUG)}

\* ------------------------------------------------------- spec actions
SpecGridSize(ww) == [k \in Kinds(ww) |-> KindSize(ww, k)]

SpecWind(ww, kind, n) ==
  IF kind \in Kinds(ww) /\ LinearInRange(ww, kind, n)
  THEN [ok |-> WindIndex(ww, kind, n)] ELSE [err |-> "rejected"]

SpecRavel(ww, native) ==
  IF NativeInRange(ww, native)
  THEN [ok |-> RavelIndex(ww, native)] ELSE [err |-> "rejected"]

\* native indexes with one component pushed outside its axis by up to Margin
ProbeNative(ww) ==
  UNION {{Pack(ww, k, idx) :
            idx \in {f \in [1..Len(KindShape(ww, k)) -> (0 - Margin)..(MaxDim + MaxUG + Margin)] :
                       \A p \in 1..Len(KindShape(ww, k)) :
                           f[p] < KindShape(ww, k)[p] + Margin}}
         : k \in Kinds(ww)}

Init == w \in Worlds /\ out = [op |-> "init"]

DoWind ==
  \E k \in Kinds(w) : \E n \in (0 - Margin)..(KindSize(w, k) + Margin - 1) :
     out' = [op |-> "wind", kind |-> k, n |-> n, res |-> SpecWind(w, k, n)]

DoRavel ==
  \E nat \in ProbeNative(w) :
     out' = [op |-> "ravel", native |-> nat, res |-> SpecRavel(w, nat)]

\* Index conversion does not change the dataset, so a behaviour is one world
\* followed by requests; `Fresh` keeps the graph a star (every request is
\* generated from every world exactly once) instead of a clique.
Fresh == out.op = "init"
Next == Fresh /\ (DoWind \/ DoRavel) /\ UNCHANGED w
Spec == Init /\ [][Next]_vars

\* ------------------------------------------------------- the property
IsOk(r) == "ok" \in DOMAIN r

\* (world-level statements are evaluated once per world, in its initial state)
\* the reported size is exactly the number of distinct addressable locations
SizeIsCount ==
  Fresh => \A k \in Kinds(w) : SpecGridSize(w)[k] = Cardinality(Indices(KindShape(w, k)))

\* linear -> native -> linear is the identity, and native is in range
WindThenRavel ==
  (out.op = "wind" /\ IsOk(out.res)) =>
      /\ NativeInRange(w, out.res.ok)
      /\ SpecRavel(w, out.res.ok) = [ok |-> out.n]

\* native -> linear -> native is the identity, and linear is in range
RavelThenWind ==
  (out.op = "ravel" /\ IsOk(out.res)) =>
      /\ LinearInRange(w, UnpackKind(w, out.native), out.res.ok)
      /\ SpecWind(w, UnpackKind(w, out.native), out.res.ok) = [ok |-> out.native]

\* linear order is row-major: the linear index is the rank of the index
\* tuple in lexicographic order
RowMajor ==
  (out.op = "ravel" /\ IsOk(out.res)) =>
      out.res.ok = RankLex(KindShape(w, UnpackKind(w, out.native)), UnpackIdx(w, out.native))

\* outside the grid => rejected, never wrapped or clamped
OutsideRejected ==
  /\ (out.op = "wind"  => (IsOk(out.res) <=> (out.n >= 0 /\ out.n < KindSize(w, out.kind))))
  /\ (out.op = "ravel" => (IsOk(out.res) <=>
          UnpackIdx(w, out.native) \in Indices(KindShape(w, UnpackKind(w, out.native)))))

\* distinct locations get distinct linear indexes (injectivity, stated directly)
Injective ==
  Fresh => \A k \in Kinds(w) : \A a, b \in Indices(KindShape(w, k)) :
      RavelRM(KindShape(w, k), a) = RavelRM(KindShape(w, k), b) => a = b

=============================================================================
