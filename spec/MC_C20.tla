------------------------------- MODULE MC_C20 -------------------------------
(***************************************************************************)
(* C20 (bounds argument): the scanner (a full match of the grammar) agrees *)
(* with the declarative grammar on every sentence built from decimal forms *)
(* and separators and on every single-character edit (insert, delete,      *)
(* replace) of base sentences; text that is not exactly four numbers is    *)
(* never bounds.                                                           *)
(***************************************************************************)
EXTENDS Cli, TLC

VARIABLES s
vars == <<s>>
One == 49  Zero == 48  Five == 53  SP == 32
Forms == {<<One>>, <<MINUS, One>>, <<One, DOT>>, <<DOT, Five>>, <<One, DOT, Five>>, <<One, USCORE, Zero>>}
Seps == {<<COMMA>>, <<SP, COMMA>>, <<COMMA, SP>>}
Sentences == {a \o x \o b \o y \o c \o z \o d : a, b \in Forms, c, d \in {<<One>>, <<DOT, Five>>, <<MINUS, One, DOT>>}, x, y, z \in Seps}
Bases == {<<One, COMMA, MINUS, One, DOT, Five, COMMA, DOT, Five, SP, COMMA, One, USCORE, Zero>>,
          <<One, DOT, COMMA, SP, One, COMMA, One, COMMA, One>>}
Alphabet == {Zero, One, MINUS, DOT, COMMA, USCORE, SP, 120, 101, 43}      \* 0 1 - . , _ space x e +
Inserts(b) == {SubSeq(b, 1, k) \o <<c>> \o SubSeq(b, k + 1, Len(b)) : k \in 0..Len(b), c \in Alphabet}
Deletes(b) == {SubSeq(b, 1, k - 1) \o SubSeq(b, k + 1, Len(b)) : k \in 1..Len(b)}
Replaces(b) == {[b EXCEPT ![k] = c] : k \in 1..Len(b), c \in Alphabet}
Edits == UNION {Inserts(b) \cup Deletes(b) \cup Replaces(b) : b \in Bases}

Init == s \in Sentences \cup Edits
Next == UNCHANGED s
Spec == Init /\ [][Next]_vars

ScannerIsGrammar == ScanBounds(s) = IsBounds(s)
SentencesAreBounds == s \in Sentences => IsBounds(s)
\* more or fewer than four numbers, or anything after the fourth, is not bounds
FourExactly == IsBounds(s) => Cardinality(Commas(s)) = 3
ValuesInRange == IsBounds(s) => \A k \in 1..4 : BoundsValue(s)[k] \in -2000000..2000000
=============================================================================
