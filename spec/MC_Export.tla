------------------------------ MODULE MC_Export ------------------------------
(***************************************************************************)
(* C15 / C19 on the bounded universe of MC_Cells: the exported feature     *)
(* list and the plot artists are views of the same cell function.          *)
(* Export(w) / Collection(w, v) / QuiverOf(w, u, v) are the specification's *)
(* results; the invariants are the declarative statements.                 *)
(***************************************************************************)
EXTENDS MC_Cells

ValidSeqOf(ww) == SelectSeq([n \in 1..FaceCount(ww) |-> n - 1], LAMBDA n : MaskAt(ww, n))

Export(ww) == [k \in 1..Len(ValidSeqOf(ww)) |->
                 [coords |-> PolyAt(ww, ValidSeqOf(ww)[k]), linear |-> ValidSeqOf(ww)[k],
                  native |-> WindIndex(ww, "face", ValidSeqOf(ww)[k])]]

Collection(ww, v) == [k \in 1..Len(ValidSeqOf(ww)) |->
                        [verts |-> PolyAt(ww, ValidSeqOf(ww)[k]), value |-> Tag(ww, v, <<>>, ValidSeqOf(ww)[k])]]

\* ---- C15
OnlyValidCells == Fresh => \A k \in 1..Len(Export(w)) : Export(w)[k].coords # <<>>
EveryValidCellOnce ==
  Fresh => /\ {Export(w)[k].linear : k \in 1..Len(Export(w))} = ValidCells(w)
           /\ Len(Export(w)) = Cardinality(ValidCells(w))
LinearOrder == Fresh => \A a, b \in 1..Len(Export(w)) : a < b => Export(w)[a].linear < Export(w)[b].linear
IndexesIdentifyCell ==
  Fresh => \A k \in 1..Len(Export(w)) :
     LET f == Export(w)[k]
     IN PolyAt(w, f.linear) = f.coords /\ RavelIndex(w, f.native) = f.linear

\* ---- C19
PlotVarB == w.vars[2]      \* variable "b": grid dimensions only
OnePatchPerValidCell == Fresh => Len(Collection(w, PlotVarB)) = Cardinality(ValidCells(w))
ValuePairs ==
  Fresh => \A k \in 1..Len(Collection(w, PlotVarB)) :
     \E n \in ValidCells(w) : Collection(w, PlotVarB)[k].verts = PolyAt(w, n)
                              /\ Collection(w, PlotVarB)[k].value = Tag(w, PlotVarB, <<>>, n)
TooManyDimsRefused == Fresh => Len(w.vars[1].dims) > Len(w.vars[1].gridpos)   \* "a" has a leftover dimension
=============================================================================
