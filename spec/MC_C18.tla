------------------------------- MODULE MC_C18 -------------------------------
(***************************************************************************)
(* C18  Transects cover exactly the part of the path inside the model.     *)
(* A 2x2 or 3x2 block of unit cells (side 4 quarter units) with at most    *)
(* one hole; every valid simple path of 2..3 vertices on the even quarter  *)
(* lattice in a window around the block.                                   *)
(***************************************************************************)
EXTENDS Transect, TLC

CONSTANTS NX, NY, MaxVerts
VARIABLES cells, path, P, Pc      \* P, Pc: the path's unit steps and the pieces, computed once per state
vars == <<cells, path, P, Pc>>

Cell(j, i) == <<4 * i, 4 * j, 4 * i + 4, 4 * j + 4>>
Grid(hole) == [n \in 1..(NX * NY) |-> IF n = hole THEN <<>> ELSE Cell((n - 1) \div NX, (n - 1) % NX)]
Window == {<<x, y>> : x \in {v \in -2..(4 * NX + 2) : v % 2 = 0}, y \in {v \in -2..(4 * NY + 2) : v % 2 = 0}}

Init == /\ \E h \in 0..(NX * NY) : cells = Grid(h)
        /\ \E n \in 2..MaxVerts : path \in {p \in [1..n -> Window] : ValidPath(p) /\ SimplePath(p)}
        /\ P = <<>> /\ Pc = {}
\* (computing the pieces is a step of its own so that TLC's workers share the work)
Next == /\ P = <<>>
        /\ P' = Points(path) /\ Pc' = Pieces(Points(path), cells)
        /\ UNCHANGED <<cells, path>>
Spec == Init /\ [][Next]_vars


\* each piece lies inside its cell, has positive length, start before end
PiecesInsideCell == P # <<>> => \A pc \in Pc : pc[2] < pc[3] /\ \A s \in (pc[2] + 1)..pc[3] : StepIn(P, s, cells[pc[1]])
\* pieces of one cell do not overlap and are maximal (not adjacent)
PiecesMaximal == P # <<>> => \A a, b \in Pc : (a # b /\ a[1] = b[1]) => (a[3] < b[2] \/ b[3] < a[2])
\* together the pieces cover exactly the steps of the path that are inside the model
CoverExactly == P # <<>> => UNION {(pc[2] + 1)..pc[3] : pc \in Pc} = ModelSteps(P, cells)
\* cells do not overlap: when no step runs along a shared edge the lengths add up to the length inside the model
RECURSIVE SumLen(_)
SumLen(S) == IF S = {} THEN 0 ELSE LET x == CHOOSE x \in S : TRUE IN (x[3] - x[2]) + SumLen(S \ {x})
LengthsAddUp == (P # <<>> /\ SharedSteps(P, cells) = {}) => SumLen(Pc) = Cardinality(ModelSteps(P, cells))
\* along a shared edge both neighbours hold the step: the sum double counts exactly those steps
SharedCountedTwice == P # <<>> => SumLen(Pc) >= Cardinality(ModelSteps(P, cells)) + Cardinality(SharedSteps(P, cells))
=============================================================================
