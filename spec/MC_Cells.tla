------------------------------ MODULE MC_Cells ------------------------------
(***************************************************************************)
(* C02 / C04 / C05 on a bounded universe.                                  *)
(*                                                                         *)
(* The views of Cells.tla (declarative: element (e, n) of every accessor   *)
(* is Tag(v, e, n); the lookup result is the least intersecting valid      *)
(* cell) are checked against operational counterparts that mirror the      *)
(* code's mechanisms: Arrays!Ravel (move-to-end + reshape), a gather over  *)
(* the stored array (isel with a selector), and an independent point-in-   *)
(* polygon formulation (half planes, for the convex lattice cells).        *)
(***************************************************************************)
EXTENDS Cells, TLC

CONSTANT Big      \* BOOLEAN: the larger universe of the thorough tier (3x3, 1x4, 3x2, 3x4 grids, up to two holes, a third mesh)

VARIABLES w, out
vars == <<w, out>>

\* ------------------------------------------------------------- universe
NodeX(i, j) == 24 * (3 * i + j)
NodeY(i, j) == 24 * (2 * j - i)
Cor2(ny, nx, H, F(_, _)) ==
  [j \in 1..ny |-> [i \in 1..nx |->
      IF <<j - 1, i - 1>> \in H THEN <<NANQ, NANQ, NANQ, NANQ>>
      ELSE <<F(i - 1, j - 1), F(i, j - 1), F(i, j), F(i - 1, j)>>]]
Cen(ny, nx, H, F(_, _)) ==
  [j \in 1..ny |-> [i \in 1..nx |-> IF <<j - 1, i - 1>> \in H THEN NANQ
                                    ELSE (F(i - 1, j - 1) + F(i, j - 1) + F(i, j) + F(i - 1, j)) \div 4]]

\* variables: grid dims first / last / split by an extra dimension; one with a missing value
VarsFor(gd, gs) ==
  <<[name |-> "a", kind |-> "face", dims |-> <<"t">> \o gd, shape |-> <<2>> \o gs,
     gridpos |-> [g \in 1..Len(gd) |-> g + 1], base |-> 100, missing |-> <<1>>, geometry |-> FALSE],
    [name |-> "b", kind |-> "face", dims |-> gd, shape |-> gs,
     gridpos |-> [g \in 1..Len(gd) |-> g], base |-> 300, missing |-> <<>>, geometry |-> FALSE],
    [name |-> "c", kind |-> "face",
     dims |-> IF Len(gd) = 2 THEN <<gd[2], "k", gd[1]>> ELSE <<gd[1], "k">>,
     shape |-> IF Len(gd) = 2 THEN <<gs[2], 2, gs[1]>> ELSE <<gs[1], 2>>,
     gridpos |-> IF Len(gd) = 2 THEN <<3, 1>> ELSE <<1>>, base |-> 500, missing |-> <<>>, geometry |-> FALSE],
    [name |-> "z", kind |-> "", dims |-> <<"t">>, shape |-> <<2>>, gridpos |-> <<>>, base |-> 900,
     missing |-> <<>>, geometry |-> FALSE]>>

SWorld(ny, nx, H) ==
  [conv |-> "cf2d", ny |-> ny, nx |-> nx, nface |-> 0, nnode |-> 0, nedge |-> -1,
   geom |-> [xc |-> Cen(ny, nx, H, NodeX), yc |-> Cen(ny, nx, H, NodeY),
             xb |-> Cor2(ny, nx, H, NodeX), yb |-> Cor2(ny, nx, H, NodeY)],
   mesh |-> [none |-> 0], vars |-> VarsFor(<<"y", "x">>, <<ny, nx>>)]

P(i, j) == <<NodeX(i, j), NodeY(i, j)>>
MWorld(nodes, faces) ==
  [conv |-> "ugrid", ny |-> 0, nx |-> 0, nface |-> Len(faces), nnode |-> Len(nodes), nedge |-> -1,
   geom |-> [none |-> 0], mesh |-> [nodes |-> nodes, faces |-> faces],
   vars |-> VarsFor(<<"face">>, <<Len(faces)>>)]

Cells2(ny, nx) == (0..(ny - 1)) \X (0..(nx - 1))
ShapesOf == {<<2, 2>>, <<2, 3>>, <<3, 1>>} \cup (IF Big THEN {<<3, 3>>, <<1, 4>>, <<3, 2>>, <<3, 4>>} ELSE {})
MaxHoles == IF Big THEN 2 ELSE 1
Worlds ==
  UNION {{SWorld(s[1], s[2], H) : H \in {S \in SUBSET Cells2(s[1], s[2]) : Cardinality(S) <= MaxHoles}}
         : s \in ShapesOf}
  \cup (IF Big
        THEN {\* two triangles and a pentagon around a quad
              MWorld(<<P(0,0), P(1,0), P(2,0), P(0,1), P(1,1), P(2,1), P(1,2)>>,
                     <<<<0, 1, 4>>, <<0, 4, 3>>, <<1, 2, 5, 4>>, <<3, 4, 5, 6>>>>)}
        ELSE {})
  \cup {MWorld(<<P(0,0), P(1,0), P(2,0), P(0,1), P(1,1), P(2,1)>>, <<<<0, 1, 4, 3>>, <<1, 2, 5>>, <<1, 5, 4>>>>),
        \* an L-shaped concave face next to a quad
        MWorld(<<P(0,0), P(2,0), P(2,1), P(1,1), P(1,2), P(0,2), P(2,2)>>, <<<<0, 1, 2, 3, 4, 5>>, <<3, 2, 6, 4>>>>)}

N(ww) == FaceCount(ww)
Lattice(ww) ==
  LET b == ExtentBBox(ww)
  IN {<<x, y>> : x \in {v \in (b[1] - 12)..(b[3] + 12) : v % 12 = 0}, y \in {v \in (b[2] - 12)..(b[4] + 12) : v % 12 = 0}}

\* --------------------------------------------------- operational models
\* the stored array of a variable
Stored(v) == [dims |-> v.dims, shape |-> v.shape,
              data |-> [p \in 1..ProdSeq(v.shape) |-> VarAtIdx(v, UnravelRM(v.shape, p - 1))]]
GridNames(v) == [g \in 1..Len(v.gridpos) |-> v.dims[v.gridpos[g]]]

\* ravel as the code does it
OpRavel(v) == Ravel(Stored(v), GridNames(v), "index")

\* isel with a selector: gather along the grid dimensions; the request
\* dimension takes the place of the first grid dimension
OpGather(ww, v, ns, dimname) ==
  LET A == Stored(v)
      fp == FirstGridPos(v)
      keep == SelectSeq([p \in 1..Len(v.dims) |-> p], LAMBDA p : ~IsGridPos(v, p) \/ p = fp)
      dims == [m \in 1..Len(keep) |-> IF keep[m] = fp THEN dimname ELSE v.dims[keep[m]]]
      shape == [m \in 1..Len(keep) |-> IF keep[m] = fp THEN Len(ns) ELSE v.shape[keep[m]]]
      q == CHOOSE m \in 1..Len(keep) : keep[m] = fp
      Val(p) ==
        LET idx == UnravelRM(shape, p - 1)
            g == UnravelRM(KindShape(ww, v.kind), ns[idx[q] + 1])
            full == [pp \in 1..Len(v.dims) |->
                       IF IsGridPos(v, pp) THEN g[CHOOSE gg \in 1..Len(v.gridpos) : v.gridpos[gg] = pp]
                       ELSE idx[CHOOSE m \in 1..Len(keep) : keep[m] = pp]]
        IN At(A, full)
  IN [dims |-> dims, shape |-> shape, data |-> [p \in 1..ProdSeq(shape) |-> Val(p)]]

\* convex cell membership by half planes
HalfPlanes(p, Pg) ==
  \/ \A k \in 1..Len(Pg) : Cross(Pg[k], Pg[Nxt(Pg, k)], p) >= 0
  \/ \A k \in 1..Len(Pg) : Cross(Pg[k], Pg[Nxt(Pg, k)], p) <= 0

\* the code's lookup: all intersecting cells, sorted, first
OpLookup(ww, p) ==
  LET hits == {n \in 0..(N(ww) - 1) : PolyAt(ww, n) # <<>> /\
                  (IF IsConvex(PolyAt(ww, n)) THEN HalfPlanes(p, PolyAt(ww, n))
                   ELSE PointInClosedPoly(p, PolyAt(ww, n)))}
  IN IF hits = {} THEN -1 ELSE CHOOSE n \in hits : \A m \in hits : n <= m

\* ------------------------------------------------------------- machine
Init == w \in Worlds /\ out = [op |-> "init"]
Fresh == out.op = "init"
Idx(ww) == 0..(N(ww) - 1)
Lists(ww) == UNION {[1..k -> Idx(ww)] : k \in 1..2}

DoRavel == \E i \in 1..Len(w.vars) : OnGrid(w.vars[i]) /\ out' = [op |-> "ravel", v |-> i, res |-> OpRavel(w.vars[i])]
DoSelect == \E i \in 1..Len(w.vars) : \E ns \in Lists(w) :
              OnGrid(w.vars[i]) /\ out' = [op |-> "select", v |-> i, ns |-> ns, res |-> OpGather(w, w.vars[i], ns, "req")]
DoLookup == \E p \in Lattice(w) : out' = [op |-> "lookup", p |-> p, res |-> OpLookup(w, p)]
Next == Fresh /\ (DoRavel \/ DoSelect \/ DoLookup) /\ UNCHANGED w
Spec == Init /\ [][Next]_vars

\* ------------------------------------------------------------- C02
\* element (e, n) of the flattened variable is the value stored at the native index of n
LinearOrderShared ==
  out.op = "ravel" =>
     LET v == w.vars[out.v]  R == out.res  V == RavelView(w, v)
     IN /\ R.data = V.data
        /\ R.shape = V.shape
        /\ SubSeq(R.dims, 1, Len(R.dims) - 1) = V.dims

\* a hole keeps its slot: removing cell h's geometry changes neither any other
\* polygon nor any value
HolesKeepSlots ==
  (Fresh /\ w.conv = "cf2d") =>
     \A h \in Cells2(w.ny, w.nx) :
        LET w2 == [w EXCEPT !.geom.xb[h[1] + 1][h[2] + 1] = <<NANQ, NANQ, NANQ, NANQ>>,
                            !.geom.yb[h[1] + 1][h[2] + 1] = <<NANQ, NANQ, NANQ, NANQ>>]
            hn == RavelRM(<<w.ny, w.nx>>, <<h[1], h[2]>>)
        IN /\ PolyAt(w2, hn) = <<>>
           /\ \A m \in Idx(w) \ {hn} : PolyAt(w2, m) = PolyAt(w, m)

\* ------------------------------------------------------------- C04
LookupIsLeastHit ==
  out.op = "lookup" =>
     /\ out.res = Lookup(w, out.p)
     /\ (out.res >= 0 <=> \E n \in ValidCells(w) : PointInClosedPoly(out.p, PolyAt(w, n)))
     /\ (out.res >= 0 => /\ MaskAt(w, out.res)
                         /\ PointInClosedPoly(out.p, PolyAt(w, out.res))
                         /\ \A m \in 0..(out.res - 1) : ~(MaskAt(w, m) /\ PointInClosedPoly(out.p, PolyAt(w, m))))
\* no "nearest cell": a point outside the bounding box of every cell finds nothing
NoNearest ==
  out.op = "lookup" =>
     LET b == ExtentBBox(w)
     IN (out.p[1] < b[1] \/ out.p[1] > b[3] \/ out.p[2] < b[2] \/ out.p[2] > b[4]) => out.res = -1

\* ------------------------------------------------------------- C05
SelectionComplete ==
  out.op = "select" => SelectManyOK(w, w.vars[out.v], out.ns, "req", out.res)

=============================================================================
