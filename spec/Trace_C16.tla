------------------------------ MODULE Trace_C16 ------------------------------
(***************************************************************************)
(* Trace validation for C16.  A record is one base dataset with its        *)
(* abstract geometry G0 and a list of variants: each event names the edit  *)
(* that produced the variant (an action of the edit system of MC_C16, here *)
(* with real variable names), the route by which the dataset was obtained  *)
(* (built in process, deep copy, saved + reopened, fresh interpreter with   *)
(* another hash seed, attribute strings built at run time) and records the *)
(* exact sequence of hash.update() payloads and the key.                   *)
(***************************************************************************)
EXTENDS CacheKey, TLC, Json, IOUtils, TLCExt

Log == ndJsonDeserialize(IOEnv.TRACE_FILE)
VARIABLES t, l, fails, seen, past
tvars == <<t, l, fails, seen, past>>
Rec == Log[t]
Ev  == Log[t].events[l]
G0  == Log[t].w.G

\* ------------------------------------------------------------ the edit system on abstract geometry
VIx(G, nm) == CHOOSE k \in 1..Len(G.vars) : G.vars[k].name = nm
Edit(G, ed) ==
  CASE ed.kind \in {"none", "EditData", "AddTimeStep", "EditGlobalAttr", "AddDataVar"} -> G
    [] ed.kind = "EditGeomValue"   -> [G EXCEPT !.vars[VIx(G, ed.var)].vals[ed.pos] = ed.value]
    [] ed.kind = "ChangeGeomDtype" -> [G EXCEPT !.vars[VIx(G, ed.var)].dtype = ed.dtype]
    [] ed.kind = "ReshapeSameBytes" -> [G EXCEPT !.vars = [k \in 1..Len(G.vars) |->
                                          IF Len(G.vars[k].shape) >= 2
                                          THEN [G.vars[k] EXCEPT !.shape = <<@[2], @[1]>> \o SubSeq(@, 3, Len(@))]
                                          ELSE G.vars[k]]]
    [] ed.kind = "TransposeValues" -> [G EXCEPT !.vars = [k \in 1..Len(G.vars) |->
                                          IF Len(G.vars[k].shape) >= 2 /\ G.vars[k].shape[1] = G.vars[k].shape[2]
                                          THEN LET n == G.vars[k].shape[1]  m == Len(G.vars[k].vals) \div (n * n)
                                               IN [G.vars[k] EXCEPT !.vals = [q \in 1..Len(@) |->
                                                     LET r == (q - 1) \div (n * m)  c == ((q - 1) \div m) % n  z == (q - 1) % m
                                                     IN @[(c * n + r) * m + z + 1]]]
                                          ELSE G.vars[k]]]
    [] ed.kind = "RenameGeom"      -> [G EXCEPT !.vars[VIx(G, ed.var)].name = ed.new]
    [] ed.kind = "AttrAdd"         -> [G EXCEPT !.vars[VIx(G, ed.var)].attrs = @ \cup {<<ed.key, ed.value>>}]
    [] ed.kind = "AttrChange"      -> [G EXCEPT !.vars[VIx(G, ed.var)].attrs = {p \in @ : p[1] # ed.key} \cup {<<ed.key, ed.value>>}]
    [] ed.kind = "AttrRemove"      -> [G EXCEPT !.vars[VIx(G, ed.var)].attrs = {p \in @ : p[1] # ed.key}]
    [] ed.kind = "ChangeConvention" -> [G EXCEPT !.class = ed.class]

\* G0 with attrs as sets (JSON gives sequences of pairs)
Norm(G) == [G EXCEPT !.vars = [k \in 1..Len(G.vars) |-> [G.vars[k] EXCEPT !.attrs = ToSet(@)]]]
GOf(e) == Edit(Norm(G0), e.edit)
\* geometry as a set of variables (their order in the stream is not fixed by the property)
AsSet(G) == [vars |-> ToSet(G.vars), class |-> G.class]

\* ------------------------------------------------------------ parsing the recorded payloads
Ok(e) == "ok" \in DOMAIN e.obs
P(e) == e.obs.ok.payloads
U32(b) == b[1] + 256 * b[2] + 65536 * b[3] + 16777216 * b[4]
IsI32(b) == Len(b) = 4
\* a variable block occupies 11 payloads; the stream ends with 3 strings (6 payloads)
NBlocks(e) == (Len(P(e)) - 6) \div 11
WellFormedLen(e) == Len(P(e)) >= 6 /\ (Len(P(e)) - 6) % 11 = 0
Block(e, k) == SubSeq(P(e), 11 * (k - 1) + 1, 11 * k)
BlockOK(b, inp) ==      \* inp: the facts about this variable of the INPUT dataset [nb, dtb, shape, bytes, nattrs]
  /\ IsI32(b[1]) /\ U32(b[1]) = Len(b[2]) /\ b[2] = inp.nb
  /\ IsI32(b[3]) /\ U32(b[3]) = Len(b[4]) /\ b[4] = inp.dtb
  /\ IsI32(b[5]) /\ U32(b[5]) = ProdS(inp.shape)
  /\ b[6] = FlatMap(I32, inp.shape)
  /\ b[7] = inp.bytes
  /\ b[8] = I32(4) /\ b[9] = I32(inp.nattrs) /\ IsI32(b[10]) /\ U32(b[10]) = Len(b[11])
InputFor(e, b) == CHOOSE k \in 1..Len(e.inputs) : e.inputs[k].nb = b[2]
HasInputFor(e, b) == \E k \in 1..Len(e.inputs) : e.inputs[k].nb = b[2]
Trailer(e) == SubSeq(P(e), Len(P(e)) - 5, Len(P(e)))
StrOK(a, b, s) == IsI32(a) /\ U32(a) = Len(b) /\ b = s

\* the marshalled attribute payloads, per variable name bytes
Marshals(e) == {<<Block(e, k)[2], Block(e, k)[11]>> : k \in 1..NBlocks(e)}
\* the stream with the marshalled attribute payloads (and their length prefixes) blanked
SansMarshal(e) == [k \in 1..Len(P(e)) |-> IF k <= 11 * NBlocks(e) /\ (k % 11 = 0 \/ k % 11 = 10) THEN <<>> ELSE P(e)[k]]

Names == {"Completed", "StreamWellFormed", "ExactlyTheGeometryVariables", "BlocksMatchInputs", "TrailerIsConvention",
          "SameGeometrySameKey", "AttrsSerialisationFunctional", "DifferentGeometryDifferentKey", "KeyIsFunctionOfStream",
          "DefaultCallSameKey"}

Holds(name, e) ==
  CASE name = "Completed" -> Ok(e)
    [] name = "StreamWellFormed" -> Ok(e) => WellFormedLen(e)
    [] name = "ExactlyTheGeometryVariables" ->
         (Ok(e) /\ WellFormedLen(e)) =>
            /\ NBlocks(e) = Len(e.inputs)
            /\ {Block(e, k)[2] : k \in 1..NBlocks(e)} = {e.inputs[k].nb : k \in 1..Len(e.inputs)}
    [] name = "BlocksMatchInputs" ->
         (Ok(e) /\ WellFormedLen(e)) =>
            \A k \in 1..NBlocks(e) : HasInputFor(e, Block(e, k)) => BlockOK(Block(e, k), e.inputs[InputFor(e, Block(e, k))])
    [] name = "TrailerIsConvention" ->
         (Ok(e) /\ WellFormedLen(e)) =>
            LET tr == Trailer(e)
            IN StrOK(tr[1], tr[2], e.module) /\ StrOK(tr[3], tr[4], e.classb) /\ StrOK(tr[5], tr[6], e.version)
    [] name = "DefaultCallSameKey" ->
         \* make_cache_key(dataset) with its DEFAULT hash object (recorded by standing in for hashlib inside the cache
         \* module) feeds the hash the same stream as the call with an explicit hash object - also when it is asked again on
         \* the same dataset object after an edit in place - and, the marshalled attribute bytes being equal (F7), returns
         \* the same key
         (Ok(e) /\ "default" \in DOMAIN e.obs.ok) =>
            LET d == e.obs.ok.default.payloads
                nb == (Len(d) - 6) \div 11
                sansd == [k \in 1..Len(d) |-> IF k <= 11 * nb /\ (k % 11 = 0 \/ k % 11 = 10) THEN <<>> ELSE d[k]]
                marshd == {<<SubSeq(d, 11 * (k - 1) + 1, 11 * k)[2], SubSeq(d, 11 * (k - 1) + 1, 11 * k)[11]>> : k \in 1..nb}
            IN /\ Len(d) >= 6 /\ (Len(d) - 6) % 11 = 0
               /\ sansd = SansMarshal(e)
               /\ (marshd = Marshals(e) => e.obs.ok.default.key = e.obs.ok.key)
    [] name = "SameGeometrySameKey" ->
         \* an earlier variant with the same abstract geometry fed the hash the same stream (the marshalled attribute
         \* bytes are judged separately by AttrsSerialisationFunctional) and, if those agree too, has the same key
         Ok(e) => \A q \in 1..Len(past) :
            AsSet(past[q].G) = AsSet(GOf(e)) =>
               /\ past[q].sans = SansMarshal(e)
               /\ (past[q].marsh = Marshals(e) => past[q].key = e.obs.ok.key)
    [] name = "AttrsSerialisationFunctional" ->
         Ok(e) => \A q \in 1..Len(past) :
            AsSet(past[q].G) = AsSet(GOf(e)) => past[q].marsh = Marshals(e)
    [] name = "DifferentGeometryDifferentKey" ->
         Ok(e) => \A q \in 1..Len(past) : AsSet(past[q].G) # AsSet(GOf(e)) => past[q].key # e.obs.ok.key
    [] name = "KeyIsFunctionOfStream" ->
         Ok(e) => \A q \in 1..Len(past) : (past[q].sans = SansMarshal(e) /\ past[q].marsh = Marshals(e)) => past[q].key = e.obs.ok.key

Failing(e) == {name \in Names : ~Holds(name, e)}
SeenOf(e) == {"edit-" \o e.edit.kind, "route-" \o e.route, Rec.w.conv}

Done == t > Len(Log)
TInit == t = 1 /\ l = 1 /\ fails = {} /\ seen = {} /\ past = <<>>
Step ==
  /\ ~Done
  /\ fails' = fails \cup {<<Rec.tid, l, name>> : name \in Failing(Ev)}
  /\ seen' = seen \cup SeenOf(Ev)
  /\ IF l < Len(Rec.events)
     THEN /\ l' = l + 1 /\ t' = t
          /\ past' = IF Ok(Ev) /\ WellFormedLen(Ev)
                     THEN Append(past, [G |-> GOf(Ev), key |-> Ev.obs.ok.key, sans |-> SansMarshal(Ev), marsh |-> Marshals(Ev)])
                     ELSE past
     ELSE l' = 1 /\ t' = t + 1 /\ past' = <<>>
TSpec == TInit /\ [][Step]_tvars
Verdict == [records |-> Len(Log), fails |-> SetToSeq(fails), seen |-> SetToSeq(seen), missing |-> <<>>]
EmitVerdict == Done => JsonSerialize(IOEnv.VERDICT_FILE, Verdict)
=============================================================================
