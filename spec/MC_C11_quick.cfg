SPECIFICATION Spec
CONSTANTS
  WithDerive = TRUE
  Contents <- TheContents
  EntryPoints <- TheEntryPoints
  Extra <- TheExtra
  ConstructClasses <- TheConstruct
  MaxObjs = 2
  MaxConvs = 2
  Depth = 100
VIEW view
INVARIANT DetectIsFunctionOfContent
INVARIANT HighestSpecificityWins
INVARIANT ManualWinsTies
INVARIANT NothingMatchesRefused
INVARIANT BestIsAllowed
INVARIANT CachedIsBound
INVARIANT BoundBelongs
INVARIANT AccessReturnsBound
PROPERTY BoundStable
PROPERTY SecondBindRefused
PROPERTY CopiesStartUnbound
PROPERTY CopiesIndependent
CHECK_DEADLOCK FALSE
