SPECIFICATION Spec
CHECK_DEADLOCK FALSE
INVARIANT OnePatchPerValidCell
INVARIANT ValuePairs
INVARIANT TooManyDimsRefused
CONSTANT Big = TRUE
