------------------------------ MODULE Trace_C17 ------------------------------
(* Trace validation for C17: format_time_units_for_ems on generated unit      *)
(* strings, and Convention.to_netcdf + reopen round trips.                    *)
EXTENDS Cells, TimeUnits, TLC, Json, IOUtils, TLCExt

Log == ndJsonDeserialize(IOEnv.TRACE_FILE)
VARIABLES t, l, fails, seen
tvars == <<t, l, fails, seen>>
Rec == Log[t]
Ev  == Log[t].events[l]
W0  == Log[t].w
Ok(e) == "ok" \in DOMAIN e.obs
Is(e, a) == e.a = a /\ Ok(e)

Civil(e) == <<e.civil[1], e.civil[2], e.civil[3], e.civil[4], e.civil[5]>>
ObsVar(vs, nm) == vs[CHOOSE k \in 1..Len(vs) : vs[k].name = nm]
HasVar(vs, nm) == \E k \in 1..Len(vs) : vs[k].name = nm

\* what a variable looks like after one time step has been selected (onestep >= 0): the "t" dimension is gone
DropAtP(sq, p) == SubSeq(sq, 1, p - 1) \o SubSeq(sq, p + 1, Len(sq))
TPos(v) == IF \E p \in 1..Len(v.dims) : v.dims[p] = "t" THEN CHOOSE p \in 1..Len(v.dims) : v.dims[p] = "t" ELSE 0
OneStep(e) == IF "onestep" \in DOMAIN e THEN e.onestep ELSE -1
ExpectedVar(v, e) ==
  IF OneStep(e) < 0 \/ TPos(v) = 0
  THEN [dims |-> v.dims, shape |-> v.shape, data |-> [p \in 1..ProdSeq(v.shape) |-> VarAtIdx(v, UnravelRM(v.shape, p - 1))]]
  ELSE LET p == TPos(v)  rs == DropAtP(v.shape, p)
       IN [dims |-> DropAtP(v.dims, p), shape |-> rs,
           data |-> [q \in 1..ProdSeq(rs) |->
                       LET ridx == UnravelRM(rs, q - 1)
                       IN VarAtIdx(v, SubSeq(ridx, 1, p - 1) \o <<OneStep(e)>> \o SubSeq(ridx, p, Len(ridx)))]]

\* the period the saved file actually uses (xarray writes a finer one than asked for when an integer axis needs it)
Periods == {"seconds", "minutes", "hours", "days", "milliseconds", "microseconds"}
FilePeriod(e) == IF \E p \in Periods : HasPrefix(e.obs.ok.units, PeriodStr(p) \o Since)
                 THEN CHOOSE p \in Periods : HasPrefix(e.obs.ok.units, PeriodStr(p) \o Since) ELSE e.period

Names == {"Returned", "EmsForm", "SameInstant",
          "Saved", "UnitsEmsForm", "UnitsSameInstant", "TimeInstantsIdentical", "SameConvention", "PolygonsIdentical",
          "ValuesIdentical", "NoNewFillAttrs", "SourcePolygons"}

Holds(name, ww, e) ==
  CASE name = "Returned" -> e.a = "Format" => Ok(e)
    [] name = "EmsForm" -> Is(e, "Format") => (IsEmsForm(e.obs.ok, e.period) /\ ParsedFieldsValid(e.obs.ok, e.period))
    [] name = "SameInstant" ->
         (Is(e, "Format") /\ IsEmsForm(e.obs.ok, e.period)) =>
            /\ ParsedInstant(e.obs.ok, e.period) = UtcMinutes(Civil(e), e.off)
            /\ ParsedSeconds(e.obs.ok, e.period) = e.sec
    [] name = "Saved" -> e.a = "SaveOpen" => Ok(e)
    [] name = "UnitsEmsForm" ->
         Is(e, "SaveOpen") => (IsEmsForm(e.obs.ok.units, FilePeriod(e)) /\ ParsedFieldsValid(e.obs.ok.units, FilePeriod(e)))
    [] name = "UnitsSameInstant" ->
         \* (the reference instant may be written in another zone than it was given in; the instant is what counts)
         (Is(e, "SaveOpen") /\ IsEmsForm(e.obs.ok.units, FilePeriod(e))) =>
            /\ ParsedInstant(e.obs.ok.units, FilePeriod(e)) = UtcMinutes(Civil(e), e.off)
            /\ ParsedSeconds(e.obs.ok.units, FilePeriod(e)) = e.sec
    [] name = "TimeInstantsIdentical" -> Is(e, "SaveOpen") => e.obs.ok.times = e.intimes
    [] name = "SameConvention" -> Is(e, "SaveOpen") => e.obs.ok.conv = e.inconv
    [] name = "PolygonsIdentical" ->
         Is(e, "SaveOpen") =>
            /\ Len(e.obs.ok.polys) = FaceCount(ww)
            /\ \A n \in 1..FaceCount(ww) : Degenerate(RawPoly(ww, n - 1)) \/ SameRing(e.obs.ok.polys[n], PolyAt(ww, n - 1))
    [] name = "SourcePolygons" ->
         \* (the dataset that was saved had these cells to begin with: saved = source = the world's)
         (e.a = "SaveOpen" /\ "srcpolys" \in DOMAIN e) =>
            /\ "ok" \in DOMAIN e.srcpolys /\ Len(e.srcpolys.ok) = FaceCount(ww)
            /\ \A n \in 1..FaceCount(ww) : Degenerate(RawPoly(ww, n - 1)) \/ SameRing(e.srcpolys.ok[n], PolyAt(ww, n - 1))
    [] name = "ValuesIdentical" ->
         Is(e, "SaveOpen") =>
            \A i \in 1..Len(ww.vars) :
               /\ HasVar(e.obs.ok.vars, ww.vars[i].name)
               /\ LET o == ObsVar(e.obs.ok.vars, ww.vars[i].name)  x == ExpectedVar(ww.vars[i], e)
                  IN o.dims = x.dims /\ o.shape = x.shape /\ o.data = x.data
    [] name = "NoNewFillAttrs" ->
         Is(e, "SaveOpen") => {e.obs.ok.fillattrs[k] : k \in 1..Len(e.obs.ok.fillattrs)} \subseteq {e.infillattrs[k] : k \in 1..Len(e.infillattrs)}

Failing(ww, e) == {name \in Names : ~Holds(name, ww, e)}
SeenOf(ww, e) == {e.a, "period-" \o e.period, "style-" \o e.style}
  \cup (IF e.off < 0 THEN {"negative-offset"} ELSE {})
  \cup (IF e.off % 60 # 0 THEN {"fractional-offset"} ELSE {})
  \cup (IF e.off # 0 /\ e.off > -600 /\ e.off < 600 THEN {"single-digit-hour-offset"} ELSE {})
  \cup (IF e.off = 0 THEN {"zero-offset"} ELSE {})
  \cup (IF e.a = "SaveOpen" THEN {ww.conv} ELSE {})
  \cup (IF e.a = "SaveOpen" /\ OneStep(e) >= 0 THEN {"scalar-time"} ELSE {})
  \cup (IF e.a = "SaveOpen" /\ "coarse" \in DOMAIN e THEN {"coarse-integer-axis"} ELSE {})
  \cup (IF e.a = "Format" /\ LocalCivil(UtcMinutes(Civil(e), e.off), 0)[3] # e.civil[3] THEN {"utc-date-differs"} ELSE {})

Done == t > Len(Log)
TInit == t = 1 /\ l = 1 /\ fails = {} /\ seen = {}
Step == /\ ~Done
        /\ fails' = fails \cup {<<Rec.tid, l, name>> : name \in Failing(W0, Ev)}
        /\ seen' = seen \cup SeenOf(W0, Ev)
        /\ IF l < Len(Rec.events) THEN l' = l + 1 /\ t' = t ELSE l' = 1 /\ t' = t + 1
TSpec == TInit /\ [][Step]_tvars
Verdict == [records |-> Len(Log), fails |-> SetToSeq(fails), seen |-> SetToSeq(seen), missing |-> <<>>]
EmitVerdict == Done => JsonSerialize(IOEnv.VERDICT_FILE, Verdict)
=============================================================================
