----------------------------- MODULE TimeUnits -----------------------------
(***************************************************************************)
(* Time unit strings as EMS reads them (utils.format_time_units_for_ems).  *)
(* Civil dates are proleptic Gregorian; instants are minutes since         *)
(* 1970-01-01 00:00 UTC plus seconds 0..59 carried separately (32-bit      *)
(* integers).  Strings are sequences of code points.                       *)
(***************************************************************************)
EXTENDS Naturals, Integers, Sequences

\* ------------------------------------------------------ civil arithmetic
\* floor division for possibly negative numerators
FDiv(a, b) == IF a >= 0 THEN a \div b ELSE 0 - ((b - 1 - a) \div b)
FMod(a, b) == a - b * FDiv(a, b)

IsLeap(y) == (y % 4 = 0 /\ y % 100 # 0) \/ y % 400 = 0
DaysInMonth(y, m) == IF m = 2 THEN (IF IsLeap(y) THEN 29 ELSE 28) ELSE IF m \in {4, 6, 9, 11} THEN 30 ELSE 31
ValidDate(y, m, d) == m \in 1..12 /\ d >= 1 /\ d <= DaysInMonth(y, m)

\* days since 1970-01-01 (Hinnant's days_from_civil)
DaysFromCivil(y0, m, d) ==
  LET y == IF m <= 2 THEN y0 - 1 ELSE y0
      era == FDiv(y, 400)
      yoe == y - era * 400
      mp == IF m > 2 THEN m - 3 ELSE m + 9
      doy == (153 * mp + 2) \div 5 + d - 1
      doe == yoe * 365 + yoe \div 4 - yoe \div 100 + doy
  IN era * 146097 + doe - 719468

\* the inverse (civil_from_days): <<y, m, d>>
CivilFromDays(z0) ==
  LET z == z0 + 719468
      era == FDiv(z, 146097)
      doe == z - era * 146097
      yoe == (doe - doe \div 1460 + doe \div 36524 - doe \div 146096) \div 365
      y == yoe + era * 400
      doy == doe - (365 * yoe + yoe \div 4 - yoe \div 100)
      mp == (5 * doy + 2) \div 153
      d == doy - (153 * mp + 2) \div 5 + 1
      m == IF mp < 10 THEN mp + 3 ELSE mp - 9
  IN <<IF m <= 2 THEN y + 1 ELSE y, m, d>>

\* local civil time <<y, m, d, hh, mm>> written with UTC offset `off` minutes -> UTC minutes since the epoch
UtcMinutes(c, off) == DaysFromCivil(c[1], c[2], c[3]) * 1440 + c[4] * 60 + c[5] - off
\* UTC minutes -> local civil time in offset `off`
LocalCivil(utc, off) ==
  LET t == utc + off
      day == FDiv(t, 1440)
      rem == FMod(t, 1440)
      ymd == CivilFromDays(day)
  IN <<ymd[1], ymd[2], ymd[3], rem \div 60, rem % 60>>

\* ------------------------------------------------------ strings (code points)
D0 == 48
Digit(n) == D0 + n
IsDigit(c) == c >= 48 /\ c <= 57
Val(c) == c - 48
Num2(s, p) == Val(s[p]) * 10 + Val(s[p + 1])
Num4(s, p) == Val(s[p]) * 1000 + Val(s[p + 1]) * 100 + Val(s[p + 2]) * 10 + Val(s[p + 3])
TwoDigits(n) == <<Digit(n \div 10), Digit(n % 10)>>
FourDigits(n) == <<Digit(n \div 1000), Digit((n \div 100) % 10), Digit((n \div 10) % 10), Digit(n % 10)>>

Seconds == <<115, 101, 99, 111, 110, 100, 115>>
Minutes == <<109, 105, 110, 117, 116, 101, 115>>
Hours   == <<104, 111, 117, 114, 115>>
Days    == <<100, 97, 121, 115>>
Millis  == <<109, 105, 108, 108, 105>> \o Seconds           \* "milliseconds"
Micros  == <<109, 105, 99, 114, 111>> \o Seconds             \* "microseconds"
PeriodStr(p) == CASE p = "seconds" -> Seconds [] p = "minutes" -> Minutes [] p = "hours" -> Hours [] p = "days" -> Days
                  [] p = "milliseconds" -> Millis [] p = "microseconds" -> Micros
Since == <<32, 115, 105, 110, 99, 101, 32>>           \* " since "

\* '<unit> since YYYY-MM-DD HH:MM:SS +HH:MM'
EmsString(p, c, sec, off) ==
  LET a == IF off < 0 THEN 0 - off ELSE off
  IN PeriodStr(p) \o Since \o FourDigits(c[1]) \o <<45>> \o TwoDigits(c[2]) \o <<45>> \o TwoDigits(c[3]) \o <<32>>
     \o TwoDigits(c[4]) \o <<58>> \o TwoDigits(c[5]) \o <<58>> \o TwoDigits(sec) \o <<32>>
     \o <<IF off < 0 THEN 45 ELSE 43>> \o TwoDigits(a \div 60) \o <<58>> \o TwoDigits(a % 60)

\* recogniser: s, after the period and " since ", is 'YYYY-MM-DD HH:MM:SS' ' ' sign H or HH ':' MM
Tail0(s, p) == SubSeq(s, Len(PeriodStr(p)) + Len(Since) + 1, Len(s))
HasPrefix(s, pre) == Len(s) >= Len(pre) /\ SubSeq(s, 1, Len(pre)) = pre
DateTimeOK(u) ==
  /\ Len(u) >= 19
  /\ \A k \in {1, 2, 3, 4, 6, 7, 9, 10, 12, 13, 15, 16, 18, 19} : IsDigit(u[k])
  /\ u[5] = 45 /\ u[8] = 45 /\ u[11] = 32 /\ u[14] = 58 /\ u[17] = 58
OffsetOK(o) ==      \* o = ' ' sign digits ':' MM
  /\ Len(o) \in {6, 7} /\ o[1] = 32 /\ o[2] \in {43, 45}
  /\ \A k \in 3..Len(o) : (k = Len(o) - 2 /\ o[k] = 58) \/ (k # Len(o) - 2 /\ IsDigit(o[k]))
IsEmsForm(s, p) ==
  /\ HasPrefix(s, PeriodStr(p) \o Since)
  /\ LET u == Tail0(s, p) IN DateTimeOK(u) /\ OffsetOK(SubSeq(u, 20, Len(u)))

\* reading of a string in EMS form (only evaluated when IsEmsForm holds)
ParsedCivil(s, p) == LET u == Tail0(s, p) IN <<Num4(u, 1), Num2(u, 6), Num2(u, 9), Num2(u, 12), Num2(u, 15)>>
ParsedSeconds(s, p) == Num2(Tail0(s, p), 18)
ParsedOffset(s, p) ==
  LET u == Tail0(s, p)  o == SubSeq(u, 20, Len(u))
      hh == IF Len(o) = 7 THEN Num2(o, 3) ELSE Val(o[3])
      mm == Num2(o, Len(o) - 1)
      mag == hh * 60 + mm
  IN IF o[2] = 45 THEN 0 - mag ELSE mag
ParsedFieldsValid(s, p) ==
  LET c == ParsedCivil(s, p) IN ValidDate(c[1], c[2], c[3]) /\ c[4] < 24 /\ c[5] < 60 /\ ParsedSeconds(s, p) < 60
ParsedInstant(s, p) == UtcMinutes(ParsedCivil(s, p), ParsedOffset(s, p))

=============================================================================
