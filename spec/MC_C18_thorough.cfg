SPECIFICATION Spec
CONSTANTS
  NX = 2
  NY = 2
  MaxVerts = 3
INVARIANT PiecesInsideCell
INVARIANT PiecesMaximal
INVARIANT CoverExactly
INVARIANT LengthsAddUp
INVARIANT SharedCountedTwice
CHECK_DEADLOCK FALSE
