SPECIFICATION Spec
INVARIANT ScannerIsGrammar
INVARIANT SentencesAreBounds
INVARIANT FourExactly
INVARIANT ValuesInRange
CHECK_DEADLOCK FALSE
