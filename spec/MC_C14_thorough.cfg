SPECIFICATION Spec
CONSTANTS
  L = 3
  MinN = 3
  MaxN = 6
INVARIANT CodePartitions
INVARIANT EarClipFindsDiagonal
CHECK_DEADLOCK FALSE
