SPECIFICATION Spec
CHECK_DEADLOCK FALSE
INVARIANT SelectionComplete
CONSTANT Big = TRUE
