------------------------------- MODULE MC_C17 -------------------------------
(***************************************************************************)
(* C17 (time units): for every UTC offset from -12:00 to +14:00 in         *)
(* 15-minute steps, local times around midnight, and dates on month / year *)
(* / leap-day boundaries, the EMS string written for the reference instant *)
(* has the EMS form and denotes the same instant; civil arithmetic is      *)
(* self-inverse.                                                           *)
(***************************************************************************)
EXTENDS TimeUnits, TLC

VARIABLES period, civil, sec, off
vars == <<period, civil, sec, off>>

Offsets == {o \in -720..840 : o % 15 = 0}
Dates == {<<1990, 1, 1>>, <<1999, 12, 31>>, <<2000, 2, 29>>, <<2000, 3, 1>>, <<2021, 11, 16>>, <<1970, 1, 1>>,
          <<2024, 2, 28>>, <<2100, 2, 28>>, <<2023, 6, 30>>, <<1900, 3, 1>>}
Times == {<<0, 0>>, <<0, 15>>, <<11, 59>>, <<12, 0>>, <<23, 45>>, <<23, 59>>}

Init == /\ period \in {"seconds", "minutes", "hours", "days"}
        /\ \E d \in Dates : \E tm \in Times : civil = <<d[1], d[2], d[3], tm[1], tm[2]>>
        /\ sec \in {0, 30} /\ off \in Offsets
Next == UNCHANGED vars
Spec == Init /\ [][Next]_vars

\* the reference instant the input denotes
Utc == UtcMinutes(civil, off)
\* what the function is to write: the same instant expressed in the input's own offset
Out == EmsString(period, LocalCivil(Utc, off), sec, off)

FormIsEms == IsEmsForm(Out, period) /\ ParsedFieldsValid(Out, period)
SameInstant == ParsedInstant(Out, period) = Utc /\ ParsedSeconds(Out, period) = sec
SameOffset == ParsedOffset(Out, period) = off
CivilRoundTrip == LocalCivil(Utc, off) = civil
\* expressed in UTC the date may differ: crossing midnight in either direction is exercised
CrossesMidnight == TRUE
DaysInverse == CivilFromDays(DaysFromCivil(civil[1], civil[2], civil[3])) = <<civil[1], civil[2], civil[3]>>
=============================================================================
