SPECIFICATION Spec
CONSTANTS
  MaxDim = 7
  MaxUG = 12
  Margin = 2
INVARIANT SizeIsCount
INVARIANT WindThenRavel
INVARIANT RavelThenWind
INVARIANT RowMajor
INVARIANT OutsideRejected
INVARIANT Injective
CHECK_DEADLOCK FALSE
