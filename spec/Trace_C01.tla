------------------------------ MODULE Trace_C01 ------------------------------
(***************************************************************************)
(* Trace validation for C01: every recorded call of grid_size, grid_kinds, *)
(* wind_index and ravel_index of the implementation is replayed against    *)
(* the actions of MC_C01 (SpecGridSize / SpecWind / SpecRavel).            *)
(*                                                                         *)
(* One trace record = one dataset (world) + the events executed on it.     *)
(* One TLC step consumes one event.  The verdict is total: a failing       *)
(* clause is recorded and the walk goes on.                                *)
(***************************************************************************)
EXTENDS MC_C01, Json, IOUtils, TLCExt

Log == ndJsonDeserialize(IOEnv.TRACE_FILE)

VARIABLES t, l, fails, seen
tvars == <<t, l, fails, seen, w, out>>

Rec == Log[t]
Ev  == Log[t].events[l]

ClauseNames == {"GridSize", "Kinds", "KindAndSize", "WindMatches", "WindRoundTrip", "WindDefault",
                "RavelMatches", "RavelRoundTrip", "KnownAction", "GridSizeBeyondInt32"}

\* Grids with more cells than a 32-bit integer counts (a global 30 arc-second raster has 43200 x 86400): TLC's own integers
\* are 32-bit too, so the size is compared in two limbs <<size \div 65536, size % 65536>>; ny, nx < 65536
LimbProduct(ny, nx) ==
  LET a == ny \div 256  b == ny % 256  c == nx \div 256  d == nx % 256
      mid == (a * d + b * c) * 256 + b * d
  IN <<a * c + mid \div 65536, mid % 65536>>

ObsOk(e) == "ok" \in DOMAIN e.obs

Matches(obs, spec) ==
  IF IsOk(spec) THEN ("ok" \in DOMAIN obs /\ obs.ok = spec.ok)
  ELSE "err" \in DOMAIN obs

Clause(name, ww, e) ==
  CASE name = "KnownAction" -> e.a \in {"GridSize", "Kinds", "Wind", "WindDefault", "Ravel", "KindOf", "GridSizeBig"}
    [] name = "GridSizeBeyondInt32" ->
         e.a = "GridSizeBig" => (e.obs.face = LimbProduct(ww.ny, ww.nx) /\ e.obs.kindof = LimbProduct(ww.ny, ww.nx))
    [] name = "KindAndSize" ->
         \* what the convention reports for a variable carrying exactly the dimensions of one grid (in any order, with or
         \* without further dimensions): that grid, and its size
         e.a = "KindOf" => (ObsOk(e) /\ e.obs.ok.kind = e.kind /\ e.obs.ok.kind2 = e.kind /\ e.obs.ok.size = SpecGridSize(ww)[e.kind])
    [] name = "GridSize" ->
         e.a = "GridSize" => e.obs = SpecGridSize(ww)
    [] name = "Kinds" ->
         e.a = "Kinds" => (Range1(e.obs) = Kinds(ww) /\ Len(e.obs) = Cardinality(Kinds(ww)))
    [] name = "WindMatches" ->
         e.a = "Wind" => Matches(e.obs, SpecWind(ww, e.kind, e.n))
    [] name = "WindDefault" ->
         e.a = "WindDefault" => Matches(e.obs, SpecWind(ww, DefaultKind, e.n))
    [] name = "WindRoundTrip" ->
         (e.a = "Wind" /\ ObsOk(e)) =>
              /\ NativeInRange(ww, e.obs.ok)
              /\ RavelIndex(ww, e.obs.ok) = e.n
    [] name = "RavelMatches" ->
         e.a = "Ravel" => Matches(e.obs, SpecRavel(ww, e.native))
    [] name = "RavelRoundTrip" ->
         (e.a = "Ravel" /\ ObsOk(e)) =>
              /\ LinearInRange(ww, UnpackKind(ww, e.native), e.obs.ok)
              /\ WindIndex(ww, UnpackKind(ww, e.native), e.obs.ok) = e.native

Failing(ww, e) == {name \in ClauseNames : ~Clause(name, ww, e)}

SeenOf(ww, e) ==
  {e.a, ww.conv} \cup (IF "obs" \in DOMAIN e /\ e.a \in {"Wind", "WindDefault", "Ravel"} /\ ~ObsOk(e)
                       THEN {"error-path"} ELSE {})
         \cup (IF IsCF(ww) \/ IsArakawa(ww) THEN (IF ww.ny # ww.nx THEN {"non-square"} ELSE {}) ELSE {})
         \cup (IF "api" \in DOMAIN e THEN {"api-" \o e.api} ELSE {})
         \cup (IF HasEdges(ww) THEN {"ugrid-edges"} ELSE {})
         \cup (IF IsUGrid(ww) /\ ~HasEdges(ww) THEN {"ugrid-no-edges"} ELSE {})

Done == t > Len(Log)

TInit ==
  /\ t = 1 /\ l = 1 /\ fails = {} /\ seen = {}
  /\ w = IF Len(Log) > 0 THEN Log[1].w ELSE [conv |-> "none"]
  /\ out = [op |-> "init"]

Advance ==
  IF l < Len(Rec.events)
  THEN /\ l' = l + 1 /\ t' = t /\ w' = w
  ELSE /\ l' = 1 /\ t' = t + 1
       /\ w' = IF t + 1 <= Len(Log) THEN Log[t + 1].w ELSE w

Step ==
  /\ ~Done
  /\ IF Len(Rec.events) = 0
     THEN fails' = fails /\ seen' = seen /\ out' = out
     ELSE /\ fails' = fails \cup {<<Rec.tid, l, name>> : name \in Failing(w, Ev)}
          /\ seen' = seen \cup SeenOf(w, Ev)
          /\ out' = [op |-> Ev.a]
  /\ Advance

TNext == Step
TSpec == TInit /\ [][TNext]_tvars

Required == {"GridSizeBig", "GridSize", "Kinds", "Wind", "WindDefault", "Ravel", "KindOf", "api-unravel_index", "error-path", "non-square",
             "cf1d", "cf2d", "shoc_simple", "shoc_standard", "arakawa", "ugrid",
             "ugrid-edges", "ugrid-no-edges"}

Verdict == [records |-> Len(Log),
            fails   |-> SetToSeq(fails),
            seen    |-> SetToSeq(seen),
            missing |-> SetToSeq(Required \ seen)]

\* written once, when the whole log has been consumed
EmitVerdict == Done => JsonSerialize(IOEnv.VERDICT_FILE, Verdict)

=============================================================================
