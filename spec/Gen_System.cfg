SPECIFICATION Spec
CONSTANTS
  BaseWorld <- SysBase
  VarChoices <- SysVarChoices
  PointLists <- SysPointLists
  MaxObjs = 5
  MaxMasks = 3
  MaxConvs = 4
  MaskSizes = {1, 2, 3}
  MaxFiles = 2
  MaxOff = 2
  Depth = 8
INVARIANT Emit
CHECK_DEADLOCK FALSE
