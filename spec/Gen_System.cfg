SPECIFICATION Spec
CONSTANTS
  BaseWorld <- SysBase
  VarChoices <- SysVarChoices
  MaxObjs = 5
  MaxMasks = 3
  MaxConvs = 4
  Depth = 8
INVARIANT Emit
CHECK_DEADLOCK FALSE
