----------------------------- MODULE Trace_Input -----------------------------
(***************************************************************************)
(* A clause every driver can have judged, whatever its own trace            *)
(* specification is: the dataset handed to the library still holds, after   *)
(* the case, what it held before (values and attributes of every variable   *)
(* that the case did not modify on purpose).  A record may carry            *)
(*   input : [before : Seq(<<name, dims, dtype, digest, attrs-digest>>),    *)
(*            after  : the same taken after the last event]                 *)
(* (harness/cellsdrv.snapshot); records without it are not judged here.     *)
(***************************************************************************)
EXTENDS Naturals, Sequences, FiniteSets, SequencesExt, TLC, Json, IOUtils, TLCExt

Log == ndJsonDeserialize(IOEnv.TRACE_FILE)
VARIABLES t, fails, seen
tvars == <<t, fails, seen>>

Judged(r) == "input" \in DOMAIN r
Changed(r) == {k \in 1..Len(r.input.before) :
                 k > Len(r.input.after) \/ r.input.after[k] # r.input.before[k]}

Done == t > Len(Log)
TInit == t = 1 /\ fails = {} /\ seen = {}
Step == /\ ~Done
        /\ fails' = IF Judged(Log[t]) /\ (Changed(Log[t]) # {} \/ Len(Log[t].input.after) # Len(Log[t].input.before))
                    THEN fails \cup {<<Log[t].tid, 0, "InputUntouched">>} ELSE fails
        /\ seen' = IF Judged(Log[t]) THEN seen \cup {"InputCheck"} ELSE seen
        /\ t' = t + 1
TSpec == TInit /\ [][Step]_tvars
Verdict == [records |-> Len(Log), fails |-> SetToSeq(fails), seen |-> SetToSeq(seen), missing |-> <<>>]
EmitVerdict == Done => JsonSerialize(IOEnv.VERDICT_FILE, Verdict)
=============================================================================
