SPECIFICATION Spec
CONSTANTS
  Shapes <- QuickShapes
  MaxBuffer = 3
  MeshN = 6
INVARIANT BlurIsGrow
INVARIANT SmearIsIncidence
INVARIANT Monotone
INVARIANT Exactness
INVARIANT RenumberOK
INVARIANT MeshRings
CHECK_DEADLOCK FALSE
