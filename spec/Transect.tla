------------------------------ MODULE Transect ------------------------------
(***************************************************************************)
(* Transects over axis-aligned lattice cells (transect.py: segments,       *)
(* transect_dataset, prepare_data_array_for_transect).                     *)
(*                                                                         *)
(* Coordinates are in "quarter units" (1/4 of a cell side).  The path is a *)
(* polyline whose segments are axis-parallel or at 45 degrees, so it is a  *)
(* sequence of unit steps p[0] .. p[N] (each coordinate changes by -1, 0   *)
(* or 1 per step) and every crossing of a cell edge happens AT a step      *)
(* boundary.  The path parameter of p[s] is s.                             *)
(* A cell is <<x0, y0, x1, y1>> (closed rectangle) or <<>> for a hole.     *)
(***************************************************************************)
EXTENDS Naturals, Integers, Sequences, FiniteSets

AbsT(v) == IF v < 0 THEN 0 - v ELSE v
MaxT(a, b) == IF a > b THEN a ELSE b
SgnT(v) == IF v > 0 THEN 1 ELSE IF v < 0 THEN -1 ELSE 0

\* unit steps of one segment a -> b (axis-parallel or diagonal), excluding a itself
SegSteps(a, b) ==
  LET n == MaxT(AbsT(b[1] - a[1]), AbsT(b[2] - a[2]))
  IN [k \in 1..n |-> <<a[1] + k * SgnT(b[1] - a[1]), a[2] + k * SgnT(b[2] - a[2])>>]
RECURSIVE StepsFrom(_, _)
StepsFrom(path, k) == IF k >= Len(path) THEN <<>> ELSE SegSteps(path[k], path[k + 1]) \o StepsFrom(path, k + 1)
\* p[1] = start, p[s + 1] = point at parameter s
Points(path) == <<path[1]>> \o StepsFrom(path, 1)
NSteps(path) == Len(Points(path)) - 1

ValidPath(path) ==
  /\ Len(path) >= 2
  /\ \A k \in 1..(Len(path) - 1) :
       LET dx == AbsT(path[k + 1][1] - path[k][1])  dy == AbsT(path[k + 1][2] - path[k][2])
       IN (dx + dy > 0) /\ (dx = 0 \/ dy = 0 \/ dx = dy)
SimplePath(path) == \A a, b \in 1..Len(Points(path)) : a # b => Points(path)[a] # Points(path)[b]

InCell(p, c) == c # <<>> /\ c[1] <= p[1] /\ p[1] <= c[3] /\ c[2] <= p[2] /\ p[2] <= c[4]
\* unit step s (from parameter s-1 to s, s \in 1..N) lies in the closed cell
StepIn(P, s, c) == InCell(P[s], c) /\ InCell(P[s + 1], c)
StepsIn(P, c) == {s \in 1..(Len(P) - 1) : StepIn(P, s, c)}

\* operational: the maximal runs of consecutive steps inside the cell, as <<start parameter, end parameter>>
Runs(P, c) ==
  LET S == StepsIn(P, c)
  IN {<<a - 1, b>> : a, b \in S} \cap
     {r \in ((0..(Len(P) - 1)) \X (0..(Len(P) - 1))) :
         /\ r[1] < r[2]
         /\ \A s \in (r[1] + 1)..r[2] : s \in S
         /\ (r[1] + 1 = 1 \/ r[1] \notin S)             \* step before the run is outside
         /\ (r[2] = Len(P) - 1 \/ (r[2] + 1) \notin S)}

\* every piece of every cell: <<cell index (1-based), start, end>>
Pieces(P, cells) == UNION {{<<n, r[1], r[2]>> : r \in Runs(P, cells[n])} : n \in 1..Len(cells)}

\* steps inside the model (any cell)
ModelSteps(P, cells) == UNION {StepsIn(P, cells[n]) : n \in 1..Len(cells)}
\* a step running along an edge shared by two cells (both closed cells contain it)
SharedSteps(P, cells) == {s \in 1..(Len(P) - 1) : Cardinality({n \in 1..Len(cells) : StepIn(P, s, cells[n])}) > 1}

\* position of a point on a simple path: its parameter, or -1
ParamOf(P, pt) == IF \E k \in 1..Len(P) : P[k] = pt THEN (CHOOSE k \in 1..Len(P) : P[k] = pt) - 1 ELSE -1
=============================================================================
