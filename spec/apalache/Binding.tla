------------------------------ MODULE Binding ------------------------------
(***************************************************************************)
(* The binding machine of MC_C11 / EmsSystem (accessor cache, bound         *)
(* convention, hand-made convention objects, copies) on its own, typed for  *)
(* Apalache, so that its invariants can be shown INDUCTIVE: they hold after *)
(* any number of steps, not only within the depth TLC explores.             *)
(* Detection is abstracted to a nondeterministic class (or "None").         *)
(***************************************************************************)
EXTENDS Integers, Sequences, FiniteSets, Apalache

CONSTANTS
  \* @type: Int;
  MaxObjs,
  \* @type: Int;
  MaxConvs

VARIABLES
  \* @type: Int -> Bool;
  live,
  \* @type: Int -> Int;
  bound,
  \* @type: Int -> Int;
  cached,
  \* @type: Seq({cls: Str, obj: Int});
  convs

Objs == 1..MaxObjs
Classes == {"A", "B", "None"}

CInit == MaxObjs = 3 /\ MaxConvs = 4

Init ==
  /\ live = [o \in Objs |-> o = 1]
  /\ bound = [o \in Objs |-> 0]
  /\ cached = [o \in Objs |-> 0]
  /\ convs = <<>>

Access(o, k) ==
  /\ live[o]
  /\ IF cached[o] # 0 THEN UNCHANGED <<live, bound, cached, convs>>
     ELSE IF bound[o] # 0 THEN cached' = [cached EXCEPT ![o] = bound[o]] /\ UNCHANGED <<live, bound, convs>>
     ELSE IF k = "None" THEN UNCHANGED <<live, bound, cached, convs>>
     ELSE /\ Len(convs) < MaxConvs
          /\ convs' = Append(convs, [cls |-> k, obj |-> o])
          /\ bound' = [bound EXCEPT ![o] = Len(convs) + 1]
          /\ cached' = [cached EXCEPT ![o] = Len(convs) + 1]
          /\ UNCHANGED live

Construct(k, o) ==
  /\ live[o] /\ k # "None" /\ Len(convs) < MaxConvs
  /\ convs' = Append(convs, [cls |-> k, obj |-> o])
  /\ UNCHANGED <<live, bound, cached>>

Bind(c) ==
  /\ c \in DOMAIN convs
  /\ IF bound[convs[c].obj] # 0 THEN UNCHANGED <<live, bound, cached, convs>>
     ELSE bound' = [bound EXCEPT ![convs[c].obj] = c] /\ UNCHANGED <<live, cached, convs>>

Copy(o) ==
  /\ live[o]
  /\ \E n \in Objs : ~live[n] /\ live' = [live EXCEPT ![n] = TRUE]
  /\ UNCHANGED <<bound, cached, convs>>

Next ==
  \/ \E o \in Objs : \E k \in Classes : Access(o, k) \/ Construct(k, o)
  \/ \E c \in 1..MaxConvs : Bind(c)
  \/ \E o \in Objs : Copy(o)

\* ------------------------------------------------------------- invariants
TypeOK ==
  /\ live \in [Objs -> BOOLEAN]
  /\ bound \in [Objs -> 0..MaxConvs]
  /\ cached \in [Objs -> 0..MaxConvs]
  /\ Len(convs) <= MaxConvs
  /\ \A c \in DOMAIN convs : convs[c].obj \in Objs /\ convs[c].cls \in {"A", "B"}

CachedIsBound == \A o \in Objs : cached[o] # 0 => cached[o] = bound[o]
BoundBelongs  == \A o \in Objs : bound[o] # 0 => (bound[o] <= Len(convs) /\ convs[bound[o]].obj = o)
OnlyLiveBound == \A o \in Objs : ~live[o] => (bound[o] = 0 /\ cached[o] = 0)
ConvsOfLive   == \A c \in DOMAIN convs : live[convs[c].obj]

IndInv == TypeOK /\ CachedIsBound /\ BoundBelongs /\ OnlyLiveBound /\ ConvsOfLive

\* the inductive step starts from ANY state satisfying IndInv
IndInit ==
  /\ live \in [Objs -> BOOLEAN]
  /\ bound \in [Objs -> 0..MaxConvs]
  /\ cached \in [Objs -> 0..MaxConvs]
  /\ convs = Gen(4)            \* an arbitrary sequence of at most 4 records, constrained by TypeOK below
  /\ IndInv

\* action invariants (evaluated on every transition out of an IndInv state)
BoundStable == \A o \in Objs : bound[o] # 0 => bound'[o] = bound[o]
NewStartUnbound == \A n \in Objs : (~live[n] /\ live'[n]) => (bound'[n] = 0 /\ cached'[n] = 0)
CopiesIndependent == \A o \in Objs : (live[o] /\ live' # live) => (bound'[o] = bound[o] /\ cached'[o] = cached[o])
ActionInv == BoundStable /\ NewStartUnbound /\ CopiesIndependent
=============================================================================
